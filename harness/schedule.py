"""Generated schedules and their interpreter (DESIGN 2.1/4): the harness owns the loop and the
clock, so an interleaving of emissions, consumer/job completions and timer expirations is a
*value* that is generated, shrunk and replayed.

actions (JSON lists):
  ["emit", entry_k, v]      fire-and-forget emit at the k-th entry
  ["pemit", entry_k, v]     hand v to the awaiting producer of that entry (emits the next element
                            only when its previous emit completed)
  ["fin", c, j]             finish the j-th pending invocation of the c-th consumer that has any
  ["job", c, j]             finish the j-th pending job of the c-th map_async node that has any
  ["adv", "next"|dt]        move the virtual clock to the next timer / by dt (multiple of 1/8 s)
  ["flush", node]           collect.flush()
  ["turn", k]               run exactly k iterations of the event loop (no full drain)
  any action + "!"          the next action follows before the loop runs anything
"""
from hypothesis import strategies as st

from . import specs
from .elements import E, Log, RC, mk
from .vloop import install

GRID = 0.125


@st.composite
def actions_strategy(draw, spec, max_actions=40, producers=True, timers=True, min_actions=1,
                     none_ok=False):
    # value code 6 = a plain None as the element (elements.mk); only for oracles that do not need
    # the provenance of every element
    top = 6 if none_ok and draw(st.integers(0, 2)) == 0 else 5
    n_ent = len(specs.entry_ids(spec))
    cols = specs.collect_ids(spec)
    has_sink = any(nd["k"] == "sink" for nd in spec["nodes"])
    has_job = any(nd["k"] == "map_async" for nd in spec["nodes"])
    opts = [st.tuples(st.just("emit"), st.integers(0, n_ent - 1), st.integers(0, top))] * 3
    if producers:
        opts.append(st.tuples(st.just("pemit"), st.integers(0, n_ent - 1), st.integers(0, top)))
    if has_sink:
        opts += [st.tuples(st.just("fin"), st.integers(0, 3), st.integers(0, 3))] * 2
    if has_job:
        opts += [st.tuples(st.just("job"), st.integers(0, 2), st.integers(0, 3))] * 2
    if timers:
        opts.append(st.tuples(st.just("adv"), st.just("next")))
        opts.append(st.tuples(st.just("adv"), st.integers(1, 16).map(lambda k: k * GRID)))
    if cols:
        opts.append(st.tuples(st.just("flush"), st.sampled_from(cols)))
    if has_job or draw(st.integers(0, 3)) == 0:
        opts.append(st.tuples(st.just("turn"), st.integers(1, 3)))
    # Hypothesis lists are short on average; force long schedules in a fixed share of cases
    lo = max(min_actions, min(max_actions, draw(st.sampled_from([1, 1, 6, 12, 20]))))
    acts = draw(st.lists(st.one_of(*opts), min_size=lo, max_size=max_actions))
    acts = [list(a) for a in acts]
    # "!" = the next action follows before the loop gets to run anything (sub-drain
    # interleavings: e.g. a job completes and a new element arrives within one loop turn)
    if draw(st.booleans()):
        marks = draw(st.lists(st.integers(0, 5), min_size=len(acts), max_size=len(acts)))
        acts = [a + ["!"] if m == 0 and a[0] != "adv" else a for a, m in zip(acts, marks)]
    return acts


class Run:
    """Everything observed in one execution."""

    def __init__(self):
        self.log = None
        self.built = None
        self.emits = []        # per emission k: dict(entry, v, fut, kind)
        self.rcs = {}          # k -> RC
        self.mds = {}          # k -> metadata list passed to emit
        self.qpoints = []      # event-log indices of quiescent sample points
        self.t_end = None
        self.drain_bound_hit = 0
        self.exceptions = []   # (k, exc) raised synchronously by emit or carried by its future


def md_for(plan, k, log):
    """metadata plan: 0 none | 1 one dict with a counter | 2 two dicts (counter + plain) |
    3 two dicts each with its own counter | 4 two dicts (plain + counter)"""
    if plan == 0:
        return None, []
    rc = RC(log, k)
    if plan == 1:
        return [{"ref": rc, "id": k}], [rc]
    if plan == 2:
        return [{"ref": rc, "id": k}, {"tag": ("t", k)}], [rc]
    if plan == 4:       # the plain dictionary first, the counter second
        return [{"tag": ("t", k)}, {"ref": rc, "id": k}], [rc]
    rc2 = RC(log, (k, "b"))
    return [{"ref": rc, "id": k}, {"ref": rc2, "id": (k, "b")}], [rc, rc2]


def execute(case, consumer_modes=None, faults=None, md_plan=None, finish=True, horizon=240.0,
            sample=None, record=True, after_build=None, step_hook=None):
    """Run case = {"spec", "actions"} on a fresh virtual loop.  md_plan: list of ints (cycled) or
    None.  sample(run, loop) is called at every quiescent sample point (after each action)."""
    spec = case["spec"]
    run = Run()
    with install() as loop:
        log = Log(loop.vclock)
        log.ctx = None
        run.log = log
        b = specs.build(spec, log, asynchronous=True, consumer_modes=consumer_modes,
                        faults=faults, record=record)
        run.built = b
        if after_build:
            after_build(b, log)
        ents = specs.entry_ids(spec)
        producers = {e: {"queue": [], "cur": None} for e in range(len(ents))}

        def drain():
            if not loop.drain():
                run.drain_bound_hit += 1

        def do_emit(ek, v, kind):
            k = len(run.emits)
            md, rcs = md_for(md_plan[k % len(md_plan)] if md_plan else 0, k, log)
            if md is not None:
                run.mds[k] = md
                run.rcs[k] = rcs
            rec = {"k": k, "entry": ek, "v": v, "kind": kind, "fut": None, "exc": None}
            run.emits.append(rec)
            log.add("emit", k, ek, log.now())
            log.ctx = k
            try:
                fut = b.nodes[ents[ek]].emit(mk(v, k), metadata=md)
            except Exception as e:
                log.ctx = None
                log.add("emitraise", k, type(e).__name__)
                rec["exc"] = e
                return rec
            log.ctx = None
            log.add("emitret", k)
            rec["fut"] = fut

            def done(f, k=k):
                log.add("emitdone", k, log.now())
                if not f.cancelled() and f.exception() is not None:
                    rec["exc"] = f.exception()
            fut.add_done_callback(done)
            return rec

        def pump():
            # awaiting producers: next element only after the previous emit completed
            again = True
            while again:
                again = False
                for ek, p in producers.items():
                    if p["queue"] and (p["cur"] is None or p["cur"]["fut"] is None
                                       or p["cur"]["fut"].done()):
                        p["cur"] = do_emit(ek, p["queue"].pop(0), "pemit")
                        drain()
                        again = True

        drain()
        for k_act, a in enumerate(list(case["actions"]) + [["end"]]):
            if step_hook:
                step_hook(k_act, b)
            if a[0] == "end":
                break
            op = a[0]
            nodrain = a[-1] == "!"
            if op == "emit":
                do_emit(a[1] % len(ents), a[2], "emit")
            elif op == "pemit":
                producers[a[1] % len(ents)]["queue"].append(a[2])
            elif op == "fin":
                cs = [c for c in b.consumers.values() if c.pending]
                if cs:
                    cs[a[1] % len(cs)].finish(a[2])
            elif op == "job":
                js = [j for j in b.jobs.values() if j.pending]
                if js:
                    js[a[1] % len(js)].finish(a[2])
            elif op == "adv":
                if a[1] == "next":
                    nt = loop.next_timer()
                    if nt is not None:
                        loop.advance_to(nt)
                else:
                    loop.advance(a[1])
            elif op == "turn":
                # run exactly a[1] iterations of the event loop (finer than a full drain)
                for _ in range(a[1]):
                    loop.call_soon(loop.stop)
                    loop.run_forever()
                continue
            elif op == "flush":
                log.add("flush", a[1])
                try:
                    b.nodes[a[1]].flush()
                except Exception as e:  # injected fault reaching the caller of flush()
                    log.add("flushraise", a[1], type(e).__name__)
            if nodrain:
                continue
            drain()
            pump()
            run.qpoints.append(len(log.events))
            log.add("q", log.now())
            if sample:
                sample(run, loop)

        if finish:
            log.add("finish-phase", log.now())
            for c in b.consumers.values():
                c.auto = True
            for j in b.jobs.values():
                j.auto = True
            t_stop = loop.vclock.now + horizon
            quiet_since = loop.vclock.now
            maxi = max([nd["p"].get("i", 0) or nd["p"].get("timeout", 0) or 0
                        for nd in spec["nodes"]] + [1.0])
            rounds = 0
            spin = 0
            scan = [len(log.events)]

            def fresh():
                new = any(ev[0] in ("rec", "cs") and _nonempty(ev) for ev in log.events[scan[0]:])
                scan[0] = len(log.events)
                return new
            while rounds < 4000:
                rounds += 1
                for c in b.consumers.values():
                    c.finish_all()
                for j in b.jobs.values():
                    j.finish_all()
                hits = run.drain_bound_hit
                drain()
                pump()
                # a map_async whose worker died after an injected fault busy-waits for ever:
                # give up once nothing has been delivered for a while although the loop spins
                spinning = run.drain_bound_hit > hits
                if spinning:
                    spin += 1
                    if spin > 120 + 8 * len(run.emits):
                        break
                if fresh():
                    quiet_since = loop.vclock.now
                alldone = all(r["fut"] is None or r["fut"].done() for r in run.emits) and \
                    not any(p["queue"] for p in producers.values())
                if (alldone or spinning) and loop.vclock.now - quiet_since > 2 * maxi + 1:
                    break
                nt = loop.next_timer()
                if nt is None:
                    if not loop.busy():
                        break
                    continue
                if nt > t_stop:
                    break
                loop.advance_to(nt)
            run.qpoints.append(len(log.events))
            log.add("q", log.now())
            if sample:
                sample(run, loop)
        run.t_end = loop.vclock.now
        run.pending_producers = {e: list(p["queue"]) for e, p in producers.items()}
        for r in run.emits:
            f = r["fut"]
            r["done"] = f is None or f.done()
    return run


def _nonempty(ev):
    x = ev[2] if ev[0] == "rec" else ev[3]
    return not (isinstance(x, (list, tuple)) and len(x) == 0)
