"""Virtual clock + harness-owned event loop (DESIGN 2.1).

streamz runs unmodified on this loop; nothing happens unless the harness drains it or moves the
clock.  All generated durations are multiples of 1/8 s so every comparison is exact.
"""
import asyncio
import contextlib
import heapq
import time as _time
import warnings

warnings.filterwarnings("ignore", category=DeprecationWarning)

from tornado.ioloop import IOLoop  # noqa: E402

T0 = 1000.0


class VClock:
    def __init__(self, t0=T0):
        self.now = float(t0)

    def __call__(self):
        return self.now


class VLoop(asyncio.SelectorEventLoop):
    """SelectorEventLoop whose time() is a virtual clock and whose selector never blocks."""

    def __init__(self, clock):
        super().__init__()
        self.vclock = clock
        sel = self._selector
        orig = sel.select
        sel.select = lambda timeout=None: orig(0)
        self.iterations = 0

    def time(self):
        return self.vclock.now

    # --- harness API -------------------------------------------------------------------------
    def _due(self):
        # drop cancelled timers at the head so they do not count as work
        sched = self._scheduled
        while sched and sched[0]._cancelled:
            h = heapq.heappop(sched)
            h._scheduled = False
            self._timer_cancelled_count = max(0, self._timer_cancelled_count - 1)
        return bool(sched) and sched[0]._when <= self.vclock.now

    def busy(self):
        return bool(self._ready) or self._due()

    def drain(self, max_iter=300):
        """Run everything runnable at the current virtual instant.  Returns True when the loop
        became idle, False when the iteration bound was hit (legit for map_async's busy wait)."""
        n = 0
        while self.busy():
            if n >= max_iter:
                return False
            self.call_soon(self.stop)
            self.run_forever()
            n += 1
            self.iterations += 1
        return True

    def next_timer(self):
        sched = [h for h in self._scheduled if not h._cancelled]
        if not sched:
            return None
        return min(h._when for h in sched)

    def advance_to(self, t, max_iter=300):
        """Move the clock to t, firing timers in order on the way (each at its own instant)."""
        spins = 0
        while True:
            self.drain(max_iter)
            nt = self.next_timer()
            if nt is None or nt > t:
                break
            spins += 1
            if spins > 20000:
                # a timer that is due but never fires: a harness problem, not a verdict
                raise RuntimeError("virtual loop makes no progress at t=%r (timer at %r)" % (
                    self.vclock.now, nt))
            self.vclock.now = max(self.vclock.now, nt)
        self.vclock.now = max(self.vclock.now, t)
        return self.drain(max_iter)

    def advance(self, dt, max_iter=300):
        return self.advance_to(self.vclock.now + dt, max_iter)


@contextlib.contextmanager
def install(t0=T0):
    """Fresh virtual loop as the current loop of this thread; clock patched everywhere streamz
    (or a refactor of it) could read it.  Nothing outlives the block."""
    import streamz.core as score
    import streamz.sinks as ssinks

    clock = VClock(t0)
    loop = VLoop(clock)
    try:
        old_loop = asyncio.get_event_loop_policy().get_event_loop()
    except Exception:
        old_loop = None
    asyncio.set_event_loop(loop)
    saved = {
        "ioloop_time": IOLoop.time,
        "core_time": score.time,
        "time_time": _time.time,
        "time_monotonic": _time.monotonic,
    }
    IOLoop.time = lambda self: clock.now
    score.time = clock
    _time.time = clock
    _time.monotonic = clock
    sinks_before = set(ssinks._global_sinks)
    try:
        yield loop
    finally:
        IOLoop.time = saved["ioloop_time"]
        score.time = saved["core_time"]
        _time.time = saved["time_time"]
        _time.monotonic = saved["time_monotonic"]
        try:
            for s in list(ssinks._global_sinks):
                if s not in sinks_before:
                    ssinks._global_sinks.discard(s)
            tasks = [t for t in asyncio.all_tasks(loop)]
            for t in tasks:
                t.cancel()
            # let cancellations unwind quietly
            loop.set_exception_handler(lambda l, c: None)
            for _ in range(5):
                loop.call_soon(loop.stop)
                loop.run_forever()
            for h in list(loop._scheduled):
                h.cancel()
            loop._ready.clear()
        finally:
            try:
                IOLoop._ioloop_for_asyncio.pop(loop, None)
            except Exception:
                pass
            loop.close()
            asyncio.set_event_loop(old_loop)


def workdir():
    """scratch directory for real files a check needs (removed by the check itself)"""
    import os
    base = os.environ.get("VERIF_TMP") or os.path.join(
        os.path.dirname(os.path.dirname(os.path.abspath(__file__))), ".work")
    d = os.path.join(base, str(os.getpid()))
    os.makedirs(d, exist_ok=True)
    return d
