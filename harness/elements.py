"""Tagged elements, the closed function catalogue, recorders, consumers, instrumented RefCounter
(DESIGN 2.2).  Nothing here imports hypothesis."""
import asyncio
import sys

from streamz import Stream
from streamz.core import RefCounter

M = 6  # all catalogue arithmetic is modulo M: keys collide constantly, feedback cycles are finite


class E:
    """Element: value (int mod M) + provenance (frozenset of source-emission ids).
    ==/hash use the value only, so de-duplicating nodes behave exactly as on raw values."""
    __slots__ = ("v", "prov")

    def __init__(self, v, prov=frozenset()):
        self.v = v % M
        self.prov = frozenset(prov)

    def __eq__(self, o):
        return isinstance(o, E) and self.v == o.v

    def __ne__(self, o):
        return not self.__eq__(o)

    def __hash__(self):
        return hash(("E", self.v))

    def __bool__(self):
        # like the integer it stands for: E(0) is falsy, so code that mistakes "falsy element"
        # for "no element" (if x: / d.get(k) or ...) is exposed
        return self.v != 0

    def __repr__(self):
        return "E(%d|%s)" % (self.v, ",".join(map(str, sorted(self.prov))))


def canon(x):
    """Full structural identity (value + provenance + tuple/list distinction)."""
    if isinstance(x, E):
        return ("E", x.v, tuple(sorted(x.prov)))
    if isinstance(x, tuple):
        return ("t",) + tuple(canon(i) for i in x)
    if isinstance(x, list):
        return ("l",) + tuple(canon(i) for i in x)
    return ("i", x)


def vcanon(x):
    """Value-only identity (hashable): what a user key function would see."""
    if isinstance(x, E):
        return x.v
    if isinstance(x, (tuple, list)):
        return tuple(vcanon(i) for i in x)
    return ("i", x)


def show(x):
    """JSON-able rendering for samples / replay details."""
    if isinstance(x, E):
        return "E%d{%s}" % (x.v, ",".join(map(str, sorted(x.prov))))
    if isinstance(x, tuple):
        return {"t": [show(i) for i in x]}
    if isinstance(x, list):
        return [show(i) for i in x]
    return x


def prov(x):
    if x is None:
        return frozenset()
    if isinstance(x, E):
        return x.prov
    if isinstance(x, (tuple, list)):
        out = frozenset()
        for i in x:
            out |= prov(i)
        return out
    return frozenset()


def leafsum(x):
    if x is None:       # None is a legal element (see mk()): the catalogue reads it as 0
        return 0
    if isinstance(x, E):
        return x.v
    if isinstance(x, (tuple, list)):
        return sum(leafsum(i) for i in x)
    return int(x)


def leaves(x):
    if isinstance(x, (tuple, list)):
        return sum(leaves(i) for i in x)
    return 1


def mk(v, k):
    """the element a generated emission (value code v, emission id k) stands for: codes 0..5 are
    tagged elements, code 6 is a plain None (code that uses None as its 'nothing here' marker
    is exposed; None carries no provenance, so only value-based oracles generate it)"""
    return None if v == NONE_CODE else E(v, {k})


NONE_CODE = 6


def _v(x):
    return 0 if x is None else x.v


# ---- function catalogue ---------------------------------------------------------------------
def inc(x):
    return E(_v(x) + 1, prov(x))


def dbl(x):
    return None if x is None else E(x.v * 2, x.prov)


def neg(x):
    return None if x is None else E(-x.v, x.prov)


def pair(x):
    return (x, E(_v(x) + 1, prov(x)))


def kv(x):
    """(key, value): the key (parity) is shared by elements that differ as a whole"""
    return (E(_v(x) % 2, prov(x)), x)


def tsum(x):
    return E(leafsum(x), prov(x))


def size(x):
    return E(leaves(x), prov(x))


def wrap(x):
    return (x,)


def add2(a, b):
    return E(leafsum(a) + leafsum(b), prov(a) | prov(b))


def cnt(*a):
    return E(len(a), prov(a))


def poly(*a, **kw):
    """position-sensitive: the i-th positional argument weighs (i mod 5) + 1, keywords weigh 5
    (map/starmap pass extra positional arguments *after* the element(s), keywords by name)"""
    tot = sum(((i % 5) + 1) * leafsum(x) for i, x in enumerate(a))
    tot += 5 * sum(leafsum(val) for _, val in sorted(kw.items()))
    return E(tot, prov(a))


def is_even(x):
    return leafsum(x) % 2 == 0


def lt3(x):
    return leafsum(x) % M < 3


def acc_add(s, x):
    return E(_v(s) + leafsum(x), prov(x))


def acc_max(s, x):
    return E(max(_v(s), leafsum(x) % M), prov(x))


def acc_count(s, x):
    return E(_v(s) + 1, prov(x))


def acc_rs(s, x):
    """returns_state=True: (new_state, result)"""
    ns = E(_v(s) + leafsum(x), prov(x))
    return ns, E(_v(s) * 2 + leafsum(x), prov(x))


def key_self(x):
    return vcanon(x)


def key_mod2(x):
    return leafsum(x) % 2


def key_mod3(x):
    return leafsum(x) % 3


def viadict(x):
    """map(viadict-wrapping).pluck(key): the element is wrapped into a dict {0: .., 1: .., (0, 1):
    x, 'v': x} and picked out again with a key that is a tuple / a string (a single key, not a
    list of indices).  Seen from outside the pair is the identity; applied to an observed
    arrival at the pluck node (the dict) it is the pick."""
    return x[(0, 1)] if isinstance(x, dict) else x


def todict(x):
    return {0: "zero", 1: "one", (0, 1): x, "v": x}


def idx0(x):
    """what a non-callable key 0 means: x[0]"""
    return x[0]


FUNCS = {f.__name__: f for f in (inc, dbl, neg, pair, kv, tsum, size, wrap, add2, cnt, poly, is_even, lt3,
                                 acc_add, acc_max, acc_count, acc_rs, key_self, key_mod2,
                                 key_mod3, idx0, viadict)}


class Boom(Exception):
    """Injected user-function failure (C16/C04)."""

    def __init__(self, ident):
        Exception.__init__(self, "boom %r" % (ident,))
        self.ident = ident


# the same failure dressed as the built-in exceptions that library code likes to catch for its own
# purposes (`except StopIteration:` around a next(), `except KeyError:` around a lookup, ...): a
# user function's exception must reach the emitter whatever its class
class BoomStop(Boom, StopIteration):
    pass


class BoomKey(Boom, KeyError):
    pass


class BoomAttr(Boom, AttributeError):
    pass


class BoomType(Boom, TypeError):
    pass


FAULT_CLASSES = {c.__name__: c for c in (Boom, BoomStop, BoomKey, BoomAttr, BoomType)}
_fault_class = [Boom]


def set_fault_class(name="Boom"):
    _fault_class[0] = FAULT_CLASSES[name]


def boom(ident):
    """the failure a generated user-function fault raises (class chosen per case, default Boom)"""
    return _fault_class[0](ident)


# ---- event log ------------------------------------------------------------------------------
class Log:
    """One global, ordered event log per case."""

    def __init__(self, clock=None):
        self.events = []
        self.clock = clock
        self.snaps = []

    def mutated(self):
        """[(event index, node id)] of emitted list batches that changed after emission"""
        return [(idx, rid) for idx, rid, x, c in self.snaps if canon(x) != c]

    def add(self, *ev):
        self.events.append(ev)
        return len(self.events) - 1

    def now(self):
        return self.clock() if self.clock else None


class Rec(Stream):
    """Recording node; attached as the FIRST child of every generated node, so its log order is
    the emission order of its parent.  Holds nothing, returns nothing."""

    def __init__(self, upstream, log, rec_id):
        self.log = log
        self.rec_id = rec_id
        Stream.__init__(self, upstream)

    def update(self, x, who=None, metadata=None):
        md = metadata
        if isinstance(md, list):
            md = list(md)
        idx = self.log.add("rec", self.rec_id, x, md, self.log.now())
        if isinstance(x, list):
            # a delivered batch must not change afterwards: remember what it looked like
            self.log.snaps.append((idx, self.rec_id, x, canon(x)))
        return []


class Awaitable:
    """an awaitable that is neither a coroutine nor a Future (what many client libraries return)"""

    def __init__(self, fut):
        self.fut = fut

    def __await__(self):
        return self.fut.__await__()


class Consumer:
    """User sink function.  mode: 'sync' | 'fut' (returns a Tornado/asyncio Future) |
    'coro' (native coroutine awaiting a harness future).  The harness finishes invocations."""

    def __init__(self, log, cid, mode="sync", fail_at=()):
        self.log = log
        self.cid = cid
        self.mode = mode
        self.n = 0
        self.pending = []  # [(inv, future)] in start order
        self.fail_at = set(fail_at)
        self.auto = False  # finish immediately (finish phase)
        self.failing = set()
        self.extra = ((), {})   # extra arguments the sink was built with
        # odd consumer ids fail *inside* the returned future, even ones at the call
        self.late_failure = bool(cid % 2) if isinstance(cid, int) else False

    def __call__(self, x, *a, **k):
        inv = self.n
        self.n += 1
        if (a, k) != self.extra:
            # sink(func, *args, **kwargs) hands its extra arguments to func after the element
            x = ("wrong-sink-arguments", repr(a), repr(sorted(k.items())))
        # "cc": the user function was *called* (reached); "cs": it started handling the element
        self.log.add("cc", self.cid, inv, x, self.log.now(), getattr(self.log, "ctx", None))
        if self.mode == "coro":
            return self._coro(inv, x)
        self.log.add("cs", self.cid, inv, x, self.log.now(), getattr(self.log, "ctx", None))
        if inv in self.fail_at and self.mode in ("fut", "aw") and self.late_failure:
            # the returned future fails later, when the harness "finishes" the invocation
            fut = asyncio.get_event_loop().create_future()
            self.pending.append((inv, fut))
            self.failing.add(inv)
            if self.auto:
                self.finish(len(self.pending) - 1)
            return Awaitable(fut) if self.mode == "aw" else fut
        if inv in self.fail_at:
            ex = boom(("c", self.cid, inv))
            self.log.add("cx", self.cid, inv, ex)
            raise ex
        if self.mode == "sync" or self.auto:
            self.log.add("cf", self.cid, inv, self.log.now())
            return None
        fut = asyncio.get_event_loop().create_future()
        self.pending.append((inv, fut))
        return Awaitable(fut) if self.mode == "aw" else fut

    async def _coro(self, inv, x):
        self.log.add("cs", self.cid, inv, x, self.log.now(), getattr(self.log, "ctx", None))
        if inv in self.fail_at:
            ex = boom(("c", self.cid, inv))
            self.log.add("cx", self.cid, inv, ex)
            raise ex
        if self.auto:
            self.log.add("cf", self.cid, inv, self.log.now())
            return None
        fut = asyncio.get_event_loop().create_future()
        self.pending.append((inv, fut))
        await fut

    def finish(self, j=0):
        """Finish the j-th pending invocation (any order)."""
        if not self.pending:
            return False
        inv, fut = self.pending.pop(j % len(self.pending))
        if inv in self.failing:
            ex = boom(("c", self.cid, inv))
            self.log.add("cx", self.cid, inv, ex)
            if not fut.done():
                fut.set_exception(ex)
                fut.exception()  # mark retrieved: no "never retrieved" noise
            return True
        self.log.add("cf", self.cid, inv, self.log.now())
        if not fut.done():
            fut.set_result(None)
        return True

    def finish_all(self):
        n = 0
        while self.pending:
            self.finish(0)
            n += 1
        return n


class Jobs:
    """Harness-resolved map_async jobs: func(x) returns an awaitable finished by the harness."""

    def __init__(self, log, jid, f, fail_at=()):
        self.log = log
        self.jid = jid
        self.f = f
        self.n = 0
        self.pending = []
        self.running = 0
        self.max_running = 0
        self.auto = False
        # even invocation indices in fail_at fail inside the job, odd ones at the call
        self.fail_at = {i for i in fail_at if i % 2 == 0}
        self.fail_sync_at = {i for i in fail_at if i % 2 == 1}
        self.extra = ((), {})

    def __call__(self, x, *a, **k):
        inv = self.n
        self.n += 1
        if (a, k) != self.extra:
            # map_async(func, *args, **kwargs) hands its extra arguments to func after the element
            raise TypeError("map_async called func with extra arguments %r %r, expected %r" % (
                a, k, self.extra))
        if inv in self.fail_sync_at:
            # the mapped callable itself raises (before any awaitable exists)
            ex = Boom(("j", self.jid, inv))
            self.log.add("js", self.jid, inv, x, self.log.now(), self.running)
            self.log.add("jx", self.jid, inv, ex)
            raise ex
        return self._job(x, inv)

    async def _job(self, x, inv):
        self.running += 1
        self.max_running = max(self.max_running, self.running)
        self.log.add("js", self.jid, inv, x, self.log.now(), self.running)
        try:
            if not self.auto:
                fut = asyncio.get_event_loop().create_future()
                self.pending.append((inv, fut))
                await fut
            if inv in self.fail_at:
                ex = Boom(("j", self.jid, inv))
                self.log.add("jx", self.jid, inv, ex)
                raise ex
            self.log.add("jf", self.jid, inv, self.log.now())
            return self.f(x)
        finally:
            self.running -= 1

    def finish(self, j=0):
        if not self.pending:
            return False
        inv, fut = self.pending.pop(j % len(self.pending))
        if not fut.done():
            fut.set_result(None)
        return True

    def finish_all(self):
        n = 0
        while self.pending:
            self.finish(0)
            n += 1
        return n


class _StubLoop:
    def __init__(self, rc):
        self.rc = rc

    def add_callback(self, cb, *a, **k):
        self.rc._trig(cb)


class RC(RefCounter):
    """Instrumented RefCounter passed in metadata like any other.  The repository class does the
    arithmetic and decides when to schedule the callback; we only observe."""

    def __init__(self, log, ident, initial=0):
        self.log = log
        self.ident = ident
        self.count = initial
        self.cb = self._cb
        self.loop = _StubLoop(self)
        self.history = []  # (op, n, count_after, site)
        self.trigs = 0
        self.min_count = initial
        self.rose_after_zero = False
        self._was_positive = initial > 0
        self._hit_zero = False

    def _cb(self):
        pass

    def _site(self):
        try:
            f = sys._getframe(2)
            # skip Stream._retain_refs/_release_refs
            if f.f_code.co_name in ("_retain_refs", "_release_refs"):
                f = f.f_back
            slf = f.f_locals.get("self")
            return "%s.%s" % (type(slf).__name__ if slf is not None else "?", f.f_code.co_name)
        except Exception:
            return "?"

    def _trig(self, cb):
        self.trigs += 1
        self.log.add("trig", self.ident, self.log.now(), self._last_site)

    def retain(self, n=1):
        site = self._site()
        if self._hit_zero and n > 0:
            self.rose_after_zero = True
        RefCounter.retain(self, n)
        if self.count > 0:
            self._was_positive = True
        self.history.append(("retain", n, self.count, site))
        self.log.add("retain", self.ident, n, self.count, site)

    def release(self, n=1):
        self._last_site = self._site()
        RefCounter.release(self, n)
        self.min_count = min(self.min_count, self.count)
        if self.count <= 0 and self._was_positive:
            self._hit_zero = True
        self.history.append(("release", n, self.count, self._last_site))
        self.log.add("release", self.ident, n, self.count, self._last_site)
