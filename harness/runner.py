"""Runner (DESIGN 2.4): drives Hypothesis over a property's parts, buckets violations by
signature (root cause), shrinks one witness per signature, writes replay + evidence files.

A property module defines ID, RULE, ASSUMPTIONS and PARTS = [Part(...)].
"""
import collections
import hashlib
import json
import multiprocessing
import os
import threading
import sys
import time
import traceback

import hypothesis
from . import elements as _elements
from hypothesis import HealthCheck, Phase, given, seed, settings

VERIF = os.path.dirname(os.path.dirname(os.path.abspath(__file__)))
REPO = os.environ.get("VERIF_REPO", "/repo")
OUT = os.environ.get("VERIF_OUT", VERIF)  # evidence/replays root (sensitivity runs redirect it)
MAX_ROOT_CAUSES = 6


class Result:
    __slots__ = ("violations", "nontrivial", "classes", "sample", "abort")

    def __init__(self, violations=None, nontrivial=False, classes=(), sample=None, abort=False):
        self.abort = abort   # the process is unusable after this case (e.g. a blocked loop thread):
        #                      record the violation unshrunk and run no further case of the part
        self.violations = list(violations or [])  # [(signature, detail)]
        self.nontrivial = nontrivial
        self.classes = list(classes)
        self.sample = sample  # optional JSON-able rendering for evidence (default: the case)


class Part:
    def __init__(self, name, strategy, execute, quick, thorough, shards=16, exhaustive=None,
                 shrink_quick=True, quick_shards=8, machine=None, steps=30, cpu_limit=120,
                 quick_factor=4):
        self.name = name
        self.strategy = strategy      # callable(tier) -> hypothesis strategy of JSON-able cases
        self.execute = execute        # callable(case) -> Result
        self.quick = quick * quick_factor   # examples in quick tier (the tier takes seconds: the
        #                               factor was added once that was measured; see DESIGN 9)
        self.thorough = thorough      # examples per shard in thorough tier
        self.shards = shards
        self.exhaustive = exhaustive  # callable(tier) -> iterable of cases (finite enumeration)
        self.shrink_quick = shrink_quick
        self.quick_shards = quick_shards
        self.machine = machine        # callable(tier) -> RuleBasedStateMachine subclass (see C15)
        self.steps = steps
        self.cpu_limit = cpu_limit    # seconds of CPU one case may use (None: unlimited), see guarded()


CATALOGUE = {"inc", "dbl", "neg", "pair", "tsum", "size", "wrap", "add2", "cnt", "poly", "_v", "is_even", "lt3",
             "acc_add", "acc_max", "acc_count", "acc_rs", "key_self", "key_mod2", "key_mod3",
             "leafsum", "leaves", "prov", "vcanon", "idx0", "viadict", "todict", "kv", "canon"}


def fuzz_part(pid, part_name, seconds_env="VERIF_FUZZ_SECONDS", default_seconds=60):
    """-> an `exhaustive` callable for a Part: in the thorough tier it runs a coverage-guided
    campaign (props/fuzz_generic.py: atheris driving the part's own strategy through Hypothesis'
    fuzz_one_input) and yields the failing cases it saved; the part's execute() re-checks them."""
    def run(tier):
        if tier != "thorough":
            return []
        import subprocess
        import tempfile
        import shutil
        from .vloop import workdir
        out = tempfile.mkdtemp(dir=workdir())
        cmd = [sys.executable, os.path.join(VERIF, "props", "fuzz_generic.py"), pid, part_name,
               "--out", out, "-max_total_time=%s" % os.environ.get(seconds_env, default_seconds),
               "-seed=%s" % (int(os.environ.get("VERIF_SEED", "1") or 1) or 1)]
        try:
            subprocess.run(cmd, timeout=1200, stdout=subprocess.DEVNULL, stderr=subprocess.DEVNULL)
            cases = []
            fn = os.path.join(out, "failures.jsonl")
            if os.path.exists(fn):
                cases = [json.loads(l) for l in open(fn)]
            st_path = os.path.join(out, "stats.json")
            n = json.load(open(st_path))["executions"] if os.path.exists(st_path) else 0
            run.executions = n
            if n == 0:
                print("note: the coverage-guided campaign of %s/%s did not run (atheris missing "
                      "under /verif/.deps? run MANIFEST.setup_cmd first)" % (pid, part_name))
            return cases[:5]
        finally:
            shutil.rmtree(out, ignore_errors=True)
    return run


class HarnessError(Exception):
    pass


class _Found(Exception):
    pass


def digest(case):
    return hashlib.sha1(json.dumps(case, sort_keys=True, default=str).encode()).hexdigest()


def from_repo(tb):
    """True iff the innermost frames of the traceback are inside the repository under test (so
    the exception was raised by streamz, not by the harness)."""
    frames = traceback.extract_tb(tb)
    for fr in reversed(frames):
        fn = fr.filename
        if fn.startswith(VERIF):
            # the catalogue functions are total on their documented argument types: an exception
            # inside one means streamz called it with something else
            if fn.endswith(os.path.join("harness", "elements.py")) and (
                    fr.name in CATALOGUE or fr.name in ("<genexpr>", "<listcomp>", "<lambda>")):
                continue
            if fn.endswith(os.path.join("harness", "specs.py")) and fr.name == "<lambda>":
                continue    # (the wrapper around a catalogue function in a generated map node)
            if fn.endswith(os.path.join("harness", "specs.py")) and fr.name == "g":
                continue
            return False
        if fn.startswith(os.path.join(REPO, "streamz")):
            return True
    return False


def exc_signature(pid, exc):
    frames = traceback.extract_tb(exc.__traceback__)
    where = "?"
    for fr in reversed(frames):
        if fr.filename.startswith(os.path.join(REPO, "streamz")):
            where = fr.name
            break
    return "%s:unexpected-%s@%s" % (pid, type(exc).__name__, where)


class Stats:
    def __init__(self):
        self.evaluations = 0
        self.nontrivial = set()
        self.classes = collections.Counter()
        self.samples = []
        self.found = {}      # signature -> {"detail":..., "case":...}
        self.known_hits = collections.Counter()
        self.parts = collections.Counter()
        self.aborted = False

    def merge(self, o):
        self.evaluations += o.evaluations
        self.nontrivial |= o.nontrivial
        self.classes.update(o.classes)
        for s in o.samples:
            if len(self.samples) < 6:
                self.samples.append(s)
        for k, v in o.found.items():
            self.found.setdefault(k, v)
        self.known_hits.update(o.known_hits)
        self.parts.update(o.parts)


_SKIPPED = Result([])     # stands for the cases not run after a part was aborted (see guarded())


class CaseCpuLimit(BaseException):
    """raised by the SIGVTALRM handler (BaseException: `except Exception` in streamz must not eat it)"""


def _on_vtalrm(signum, frame):
    raise CaseCpuLimit()


def guarded(pid, part, case):
    """part.execute(case) under a CPU-time limit.  Cases take milliseconds; one that burns
    part.cpu_limit seconds of *CPU* (ITIMER_VIRTUAL: not wall clock, so machine load cannot
    trigger it) is an endless loop in the code under test and is reported as a violation
    instead of stalling the check until the watchdog (exit 2)."""
    import signal
    limit = getattr(part, "cpu_limit", None)
    if not limit or threading.current_thread() is not threading.main_thread():
        return part.execute(case)
    old = signal.signal(signal.SIGVTALRM, _on_vtalrm)
    signal.setitimer(signal.ITIMER_VIRTUAL, limit, 2.0)   # repeats: asyncio may swallow one
    try:
        return part.execute(case)
    except CaseCpuLimit:
        signal.setitimer(signal.ITIMER_VIRTUAL, 0)
        return Result([("%s:case-did-not-terminate" % pid,
                        "the case used more than %d s of CPU time without finishing (cases "
                        "normally take milliseconds): endless loop" % limit)],
                      nontrivial=True, classes=["cpu-limit"])
    finally:
        signal.setitimer(signal.ITIMER_VIRTUAL, 0)
        signal.signal(signal.SIGVTALRM, old)


def load_known(pid):
    path = os.path.join(VERIF, "known_findings.json")
    if not os.path.exists(path):
        return []
    with open(path) as f:
        data = json.load(f)
    return [e for e in data.get("findings", []) if e.get("property") == pid]


def _run_part(pid, part, tier, seed_value, known_sigs, n_examples, want_shrink):
    stats = Stats()
    exclude = set(known_sigs)

    def account(case, res):
        if res is _SKIPPED:
            return
        stats.evaluations += 1
        stats.parts[part.name] += 1
        for c in res.classes:
            stats.classes[c] += 1
        if res.nontrivial:
            d = digest(case)
            if d not in stats.nontrivial:
                stats.nontrivial.add(d)
                if len(stats.samples) < 3:
                    stats.samples.append(res.sample if res.sample is not None else case)
        for sig, _ in res.violations:
            if sig in known_sigs:
                stats.known_hits[sig] += 1

    def run_case(case):
        case = dict(case)
        case["part"] = part.name
        _elements.set_fault_class("Boom")
        if stats.aborted:
            return case, _SKIPPED
        try:
            res = guarded(pid, part, case)
            if res.abort or any(s_.endswith(":case-did-not-terminate") for s_, _ in res.violations):
                # neither shrunk nor searched further: every further attempt costs the limit again
                for s_, d_ in res.violations:
                    if s_ not in exclude:
                        stats.found[s_] = {"detail": d_, "case": case}
                        exclude.add(s_)
                stats.aborted = True
        except HarnessError:
            raise
        except Exception as e:  # exceptions escaping execute(): streamz's or ours?
            if from_repo(e.__traceback__):
                res = Result([(exc_signature(pid, e), "".join(
                    traceback.format_exception(type(e), e, e.__traceback__))[-1500:])],
                    nontrivial=True, classes=["unexpected-exception"])
            else:
                raise HarnessError("harness failure on case %s" % json.dumps(case)[:2000]) from e
        return case, res

    if part.exhaustive is not None:
        for case in part.exhaustive(tier):
            case, res = run_case(case)
            account(case, res)
            for sig, detail in res.violations:
                if sig not in exclude and sig not in stats.found:
                    stats.found[sig] = {"detail": detail, "case": case}
        extra = int(getattr(part.exhaustive, "executions", 0) or 0)
        stats.evaluations += extra
        stats.parts[part.name] += extra
        if part.strategy is None and part.machine is None:
            return stats

    for attempt in range(MAX_ROOT_CAUSES):
        state = {"target": None, "last": None}

        def body(case):
            case, res = run_case(case)
            account(case, res)
            bad = [(s, d) for s, d in res.violations if s not in exclude]
            if state["target"] is not None:
                bad = [(s, d) for s, d in bad if s == state["target"]]
            if bad:
                if state["target"] is None:
                    state["target"] = bad[0][0]
                state["last"] = (case, bad[0][1])
                raise _Found(bad[0][0])

        phases = [Phase.generate]
        if want_shrink:
            phases.append(Phase.shrink)
        if part.machine is not None:
            # stateful mode: the machine records its own trace (= the replayable case); the hooks
            # below do the accounting and turn a fresh violation into a Hypothesis failure
            from hypothesis.stateful import run_state_machine_as_test
            Base = part.machine(tier)

            def on_step(m):
                bad = [(s_, d) for s_, d in m.violations if s_ not in exclude]
                if state["target"] is not None:
                    bad = [(s_, d) for s_, d in bad if s_ == state["target"]]
                if bad:
                    if state["target"] is None:
                        state["target"] = bad[0][0]
                    case = {"part": part.name, "trace": list(m.trace)}
                    state["last"] = (case, bad[0][1])
                    raise _Found(bad[0][0])

            def on_done(m):
                account({"part": part.name, "trace": list(m.trace)},
                        Result(m.violations, m.nontrivial(), m.classes()))
            M = type("M", (Base,), {"on_step": staticmethod(on_step),
                                    "on_done": staticmethod(on_done)})
            st_ = settings(max_examples=n_examples, stateful_step_count=part.steps,
                           database=None, deadline=None, derandomize=False,
                           report_multiple_bugs=False, phases=phases,
                           suppress_health_check=list(HealthCheck), print_blob=False,
                           verbosity=hypothesis.Verbosity.quiet)
            try:
                run_state_machine_as_test(seed(seed_value * 7919 + attempt)(M), settings=st_)
            except _Found:
                sig = state["target"]
                case, detail = state["last"]
                case = minimise_trace(part, case, sig)
                stats.found[sig] = {"detail": detail, "case": case}
                exclude.add(sig)
                continue
            except hypothesis.errors.Flaky as e:
                if state["last"] is not None:
                    # the recorded trace did violate the oracle once (e.g. behaviour that depends
                    # on when the garbage collector runs): report it unshrunk; the replay file
                    # decides whether it reproduces
                    sig = state["target"]
                    case, detail = state["last"]
                    stats.found[sig] = {"detail": "(not reproducible on every run) " + str(detail),
                                        "case": case}
                    exclude.add(sig)
                    continue
                raise HarnessError("non-deterministic machine (harness bug): %s" % e) from e
            break
        test = given(part.strategy(tier))(body)
        test = seed(seed_value * 7919 + attempt)(test)
        test = settings(max_examples=n_examples, database=None, deadline=None,
                        derandomize=False, report_multiple_bugs=False, phases=phases,
                        suppress_health_check=[HealthCheck.too_slow, HealthCheck.data_too_large,
                                               HealthCheck.large_base_example],
                        print_blob=False, verbosity=hypothesis.Verbosity.quiet)(test)
        try:
            test()
        except _Found:
            sig = state["target"]
            case, detail = state["last"]
            stats.found[sig] = {"detail": detail, "case": case}
            exclude.add(sig)
            continue
        except hypothesis.errors.Flaky as e:
            if state["last"] is not None:
                # the recorded case did violate the oracle once: report it (unshrunk); the
                # replay file decides whether it reproduces
                sig = state["target"]
                case, detail = state["last"]
                stats.found[sig] = {"detail": "(not reproducible on every run) " + str(detail),
                                    "case": case}
                exclude.add(sig)
                continue
            raise HarnessError("non-deterministic case (harness bug): %s" % e) from e
        break
    return stats


def minimise_trace(part, case, sig, budget=400):
    """Greedy one-step-at-a-time deletion over a recorded machine trace (Hypothesis' own
    shrinker is slow on machines and capped at five minutes): keeps a step only if the same
    violation signature disappears without it."""
    trace = list(case["trace"])

    def fails(tr):
        try:
            res = part.execute({"part": case.get("part"), "trace": tr})
        except Exception:
            return False
        return any(s_ == sig for s_, _ in res.violations)
    if not fails(trace):
        return case
    runs = 0
    changed = True
    while changed and runs < budget:
        changed = False
        i = len(trace) - 1
        while i >= 0 and runs < budget:
            cand = trace[:i] + trace[i + 1:]
            runs += 1
            if fails(cand):
                trace = cand
                changed = True
            i -= 1
    out = dict(case)
    out["trace"] = trace
    return out


def _regress(args):
    _, pid, modname, known_sigs = args
    import glob
    mod = __import__(modname, fromlist=["PARTS"])
    stats = Stats()
    for path in sorted(glob.glob(os.path.join(VERIF, "regress", "%s-*.json" % pid))):
        with open(path) as f:
            data = json.load(f)
        case = data.get("case", data)
        try:
            res = replay_case(mod, case)
        except Exception as e:
            if from_repo(e.__traceback__):
                res = Result([(exc_signature(pid, e), repr(e))])
            else:
                return ("err", "".join(traceback.format_exception(type(e), e, e.__traceback__)))
        stats.evaluations += 1
        stats.parts["regress"] += 1
        for sig, detail in res.violations:
            if sig not in known_sigs:
                stats.found.setdefault(sig, {"detail": "regression file %s: %s" % (
                    os.path.basename(path), detail), "case": case})
    return ("ok", stats)


def _shard(args):
    if args[0] == "regress":
        return _regress(args)
    pid, modname, part_name, tier, seed_value, known_sigs, n, want_shrink = args
    sys.setrecursionlimit(10000)
    mod = __import__(modname, fromlist=["PARTS"])
    part = [p for p in mod.PARTS if p.name == part_name][0]
    try:
        return ("ok", _run_part(pid, part, tier, seed_value, known_sigs, n, want_shrink))
    except HarnessError as e:
        return ("err", "".join(traceback.format_exception(type(e), e, e.__traceback__)))
    except Exception as e:
        return ("err", "".join(traceback.format_exception(type(e), e, e.__traceback__)))


def run_property(mod, tier, seed_value, only_part=None):
    t0 = time.time()
    pid = mod.ID
    known = load_known(pid)
    known_sigs = frozenset(e["signature"] for e in known)
    total = Stats()
    scale = float(os.environ.get("VERIF_SCALE", "1"))
    jobs = []
    for part in mod.PARTS:
        if only_part and part.name != only_part:
            continue
        if tier == "quick":
            n = max(1, int(part.quick * scale))
            qs = max(1, min(part.quick_shards, n // 20))
            for sh in range(qs):
                jobs.append((pid, mod.__name__, part.name, tier, seed_value * 100 + sh,
                             known_sigs, (n + qs - 1) // qs, part.shrink_quick))
        else:
            n = max(1, int(part.thorough * scale))
            for sh in range(part.shards):
                jobs.append((pid, mod.__name__, part.name, tier, seed_value * 1000 + sh + 1,
                             known_sigs, n, True))
    # seconds-long replay tier: saved shrunk failures (regress/<ID>-*.json) are re-executed first
    # (as a pool job of their own: the parent process must stay free of threads before forking)
    jobs.insert(0, ("regress", pid, mod.__name__, sorted(known_sigs)))
    errors = []
    if os.environ.get("VERIF_NOFORK"):
        results = [_shard(j) for j in jobs]
    else:
        ctx = multiprocessing.get_context("fork")
        with ctx.Pool(min(16, len(jobs))) as pool:
            results = pool.map(_shard, jobs, chunksize=1)
    for status, payload in results:
        if status == "ok":
            total.merge(payload)
        else:
            errors.append(payload)
    if errors:
        sys.stderr.write("HARNESS ERROR\n" + errors[0] + "\n")
        return 2

    # known findings: print the line iff the recorded witness still fails
    for e in known:
        still = False
        wit = e.get("witness")
        if wit is not None:
            try:
                res = replay_case(mod, wit)
                still = any(s == e["signature"] for s, _ in res.violations)
            except Exception:
                still = False
        if still or total.known_hits.get(e["signature"]):
            print("KNOWN-FINDING: property=%s %s (%s)" % (pid, e["signature"], e.get("what", "")))

    os.makedirs(os.path.join(OUT, "replays"), exist_ok=True)
    os.makedirs(os.path.join(OUT, "evidence"), exist_ok=True)
    rc = 0
    for sig, info in sorted(total.found.items()):
        rc = 1
        name = "%s-%s.json" % (pid, hashlib.sha1(sig.encode()).hexdigest()[:10])
        path = os.path.join(OUT, "replays", name)
        with open(path, "w") as f:
            json.dump({"property": pid, "signature": sig, "detail": info["detail"],
                       "case": info["case"], "seed": seed_value, "tier": tier}, f, indent=1,
                      default=str)
        print("VIOLATION property=%s replay=%s" % (pid, path))
        print("  signature: %s" % sig)
        print("  detail: %s" % str(info["detail"])[:600])

    nt = len(total.nontrivial)
    ev = {
        "property_id": pid,
        "tier": tier,
        "seed": seed_value,
        "level": "exploration",
        "coverage": {
            "evaluations": total.evaluations,
            "distinct_nontrivial": nt,
            "rule": mod.RULE,
            "samples": total.samples[:5] or ["(no non-trivial case in this run)"],
            "classes": dict(sorted(total.classes.items())),
            "per_part": dict(total.parts),
            "excluded_by_known_finding": dict(total.known_hits),
            "exhaustive": bool(getattr(mod, "EXHAUSTIVE", False)),
        },
        "assumptions": list(getattr(mod, "ASSUMPTIONS", [])),
        "wall_s": round(time.time() - t0, 2),
        "violations": len(total.found),
    }
    with open(os.path.join(OUT, "evidence", "%s.json" % pid), "w") as f:
        json.dump(ev, f, indent=1, default=str)
    print("%s %s seed=%d: %d cases, %d distinct non-trivial, %d violation signature(s), %.1fs"
          % (pid, tier, seed_value, total.evaluations, nt, len(total.found), time.time() - t0))
    if nt < 2 and rc == 0:
        sys.stderr.write("HARNESS ERROR: fewer than 2 non-trivial cases\n")
        return 2
    return rc


def replay_case(mod, case):
    part = [p for p in mod.PARTS if p.name == case.get("part", mod.PARTS[0].name)][0]
    _elements.set_fault_class("Boom")
    return guarded(mod.ID, part, case)


def replay(mod, path):
    with open(path) as f:
        data = json.load(f)
    case = data["case"] if "case" in data else data
    known_sigs = {e["signature"] for e in load_known(mod.ID)}
    try:
        res = replay_case(mod, case)
    except Exception as e:
        if from_repo(e.__traceback__):
            res = Result([(exc_signature(mod.ID, e), repr(e))])
        else:
            traceback.print_exc()
            return 2
    bad = [(s, d) for s, d in res.violations if s not in known_sigs]
    for s, d in res.violations:
        if s in known_sigs:
            print("KNOWN-FINDING: property=%s %s" % (mod.ID, s))
    if bad:
        print("VIOLATION property=%s replay=%s" % (mod.ID, path))
        for s, d in bad:
            print("  signature: %s\n  detail: %s" % (s, str(d)[:1500]))
        return 1
    print("replay %s: property held" % path)
    return 0
