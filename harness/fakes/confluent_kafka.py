"""In-memory stand-in for the parts of the confluent_kafka client that streamz uses (C09 only).
The broker object survives 'crashes' of the consuming process; every call is logged."""

OFFSET_INVALID = -1001


class KafkaException(Exception):
    pass


class KafkaError(Exception):
    pass


class TopicPartition:
    def __init__(self, topic, partition=-1, offset=OFFSET_INVALID):
        self.topic = topic
        self.partition = partition
        self.offset = offset

    def __repr__(self):
        return "TopicPartition(%r, %r, %r)" % (self.topic, self.partition, self.offset)


class Broker:
    def __init__(self):
        self.reset()

    def reset(self):
        self.logs = {}          # topic -> [list of values per partition]
        self.committed = {}     # (group, topic, partition) -> offset
        self.calls = []         # every client call, in order
        self.observer = None    # optional callable(event): lets a harness interleave calls with its own log
        self.clock = None

    def create(self, topic, npartitions):
        self.logs[topic] = [[] for _ in range(npartitions)]

    def add_partition(self, topic):
        self.logs[topic].append([])

    def produce(self, topic, partition, value):
        self.logs[topic][partition].append(value)
        return len(self.logs[topic][partition]) - 1

    def log(self, *e):
        self.calls.append(e + ((self.clock() if self.clock else None),))
        if self.observer is not None:
            self.observer(e)


BROKER = Broker()


class _Message:
    def __init__(self, topic, partition, offset, value):
        self._t, self._p, self._o, self._v = topic, partition, offset, value

    def value(self):
        return self._v

    def key(self):
        return b"k%d" % self._o

    def offset(self):
        return self._o

    def partition(self):
        return self._p

    def error(self):
        return None


class _PartMeta:
    pass


class _TopicMeta:
    def __init__(self, n):
        self.partitions = {i: _PartMeta() for i in range(n)}


class _ClusterMeta:
    def __init__(self, topics):
        self.topics = topics


class Consumer:
    def __init__(self, conf):
        self.conf = dict(conf)
        self.group = conf.get("group.id")
        self.assigned = []
        self.pos = {}
        self.stored = {}
        self.closed = False
        BROKER.log("new-consumer", self.group, dict(conf))

    def subscribe(self, topics):
        pass

    def unsubscribe(self):
        pass

    def assign(self, tps):
        self.assigned = list(tps)
        for tp in tps:
            self.pos[(tp.topic, tp.partition)] = tp.offset
        BROKER.log("assign", self.group, [(tp.topic, tp.partition, tp.offset) for tp in tps])

    def poll(self, timeout=None):
        for tp in self.assigned:
            key = (tp.topic, tp.partition)
            log = BROKER.logs[tp.topic][tp.partition]
            o = self.pos[key]
            if o < 0:
                o = 0
            if o < len(log):
                self.pos[key] = o + 1
                self.stored[(tp.topic, tp.partition)] = o + 1   # librdkafka's offset store
                return _Message(tp.topic, tp.partition, o, log[o])
        return None

    def commit(self, offsets=None, asynchronous=True, message=None):
        for tp in offsets or []:
            BROKER.committed[(self.group, tp.topic, tp.partition)] = tp.offset
            BROKER.log("commit", self.group, tp.topic, tp.partition, tp.offset)

    def committed(self, tps, timeout=None):
        out = []
        for tp in tps:
            o = BROKER.committed.get((self.group, tp.topic, tp.partition), OFFSET_INVALID)
            out.append(TopicPartition(tp.topic, tp.partition, o))
        BROKER.log("committed", self.group, [(t.partition, t.offset) for t in out])
        return out

    def get_watermark_offsets(self, tp, timeout=None, cached=False):
        logs = BROKER.logs.get(tp.topic)
        if logs is None or tp.partition >= len(logs):
            raise KafkaException("unknown partition")
        return 0, len(logs[tp.partition])

    def list_topics(self, topic=None, timeout=None):
        return _ClusterMeta({t: _TopicMeta(len(p)) for t, p in BROKER.logs.items()})

    def close(self):
        # like librdkafka: with enable.auto.commit the stored offsets are committed on close
        if str(self.conf.get("enable.auto.commit", "true")).lower() == "true" and not self.closed:
            for (topic, part), off in self.stored.items():
                BROKER.committed[(self.group, topic, part)] = off
                BROKER.log("commit", self.group, topic, part, off)
        self.closed = True


class Producer:
    def __init__(self, conf):
        pass
