"""Reference model of the documented list-level meaning of every synchronous node (DESIGN
Appendix A), written from the docstrings, not from the implementation.

Each node: update(x, md, who) is a *generator* of (y, md_y): state is final before each yield, so
the depth-first executor below reproduces the documented execution order, including re-entrancy
through a feedback edge.  holders() lists the metadata lists the node legitimately still holds.
"""
from .elements import FUNCS, E, Boom


class MNode:
    def __init__(self, i, nd, graph):
        self.i = i
        self.k = nd["k"]
        self.p = nd["p"]
        self.u = list(nd["u"])
        self.g = graph
        self.calls = 0

    def fn(self, name):
        """user function with the graph's fault plan applied (same counting as the builder)"""
        f = FUNCS[name]
        fa = self.g.faults.get(self.i)
        if not fa:
            return f

        def g(*a, **k):
            c = self.calls
            self.calls += 1
            if c in fa:
                raise Boom(("f", self.i, c))
            return f(*a, **k)
        return g

    def holders(self):
        return []


class M_entry(MNode):
    def update(self, x, md, who):
        yield x, md


class M_map(MNode):
    def update(self, x, md, who):
        yield self.fn(self.p["f"])(x, *self.p.get("args", []), **self.p.get("kw", {})), md


class M_starmap(MNode):
    def update(self, x, md, who):
        yield self.fn(self.p["f"])(*x, *self.p.get("args", []), **self.p.get("kw", {})), md


class M_filter(MNode):
    def update(self, x, md, who):
        if self.fn(self.p["f"])(x):
            yield x, md


class M_accumulate(MNode):
    def __init__(self, *a):
        super().__init__(*a)
        self.has = self.p["start"] is not None
        self.state = E(self.p["start"]) if self.has else None

    def update(self, x, md, who):
        if not self.has:
            self.has = True
            self.state = x
            yield ((x, x) if self.p["ws"] else x), md
            return
        r = self.fn(self.p["f"])(self.state, x)
        if self.p["rs"]:
            st, res = r
        else:
            st = res = r
        self.state = st
        yield ((st, res) if self.p["ws"] else res), md


class M_slice(MNode):
    def __init__(self, *a):
        super().__init__(*a)
        self.pos = 0

    def update(self, x, md, who):
        p = self.pos
        self.pos += 1
        a = self.p["a"] or 0
        b = self.p["b"]
        c = self.p["c"] or 1
        if p >= a and (b is None or p < b) and (p - a) % c == 0:
            yield x, md


class M_partition(MNode):
    def __init__(self, *a):
        super().__init__(*a)
        self.buf = {}

    def key(self, x):
        return self.fn(self.p["key"])(x) if self.p.get("key") else None

    def update(self, x, md, who):
        k = self.key(x)
        b = self.buf.setdefault(k, [])
        b.append((x, md))
        if len(b) == self.p["n"]:
            self.buf[k] = []
            yield tuple(v for v, _ in b), [m for _, ml in b for m in ml]

    def holders(self):
        return [ml for b in self.buf.values() for _, ml in b]


class M_partition_unique(MNode):
    def __init__(self, *a):
        super().__init__(*a)
        self.buf = {}

    def update(self, x, md, who):
        k = self.fn(self.p["key"])(x)
        if self.p["keep"] == "last":
            self.buf.pop(k, None)
            self.buf[k] = (x, md)
        elif k not in self.buf:
            self.buf[k] = (x, md)
        if len(self.buf) == self.p["n"]:
            vals = list(self.buf.values())
            self.buf = {}
            yield tuple(v for v, _ in vals), [m for _, ml in vals for m in ml]

    def holders(self):
        return [ml for _, ml in self.buf.values()]


class M_sliding_window(MNode):
    def __init__(self, *a):
        super().__init__(*a)
        self.win = []

    def update(self, x, md, who):
        n = self.p["n"]
        self.win.append((x, md))
        self.win = self.win[-n:]
        w = list(self.win)
        # what the node keeps for future windows: the last n-1 elements
        if len(self.win) == n:
            self.win = self.win[1:] if n > 1 else []
            full = True
        else:
            full = False
        if self.p["partial"] or full:
            yield tuple(v for v, _ in w), [m for _, ml in w for m in ml]

    def holders(self):
        return [ml for _, ml in self.win]


class M_unique(MNode):
    def __init__(self, *a):
        super().__init__(*a)
        self.hist = []  # most recent first

    def update(self, x, md, who):
        k = self.fn(self.p["key"])(x)
        hit = k in self.hist
        if hit:
            self.hist.remove(k)
        self.hist.insert(0, k)
        if self.p["maxsize"]:
            del self.hist[self.p["maxsize"]:]
        if not hit:
            yield x, md


class M_flatten(MNode):
    def update(self, x, md, who):
        items = list(x)
        for j, it in enumerate(items):
            yield it, (md if j == len(items) - 1 else [])


class M_pluck(MNode):
    def update(self, x, md, who):
        pk = self.p["pick"]
        if isinstance(pk, list):
            yield tuple(x[j] for j in pk), md
        else:
            yield x[pk], md


class M_collect(MNode):
    def __init__(self, *a):
        super().__init__(*a)
        self.cache = []

    def update(self, x, md, who):
        self.cache.append((x, md))
        return
        yield  # pragma: no cover

    def flush(self):
        c, self.cache = self.cache, []
        return tuple(v for v, _ in c), [m for _, ml in c for m in ml]

    def holders(self):
        return [ml for _, ml in self.cache]


class M_union(MNode):
    def update(self, x, md, who):
        yield x, md


class M_zip(MNode):
    def __init__(self, *a):
        super().__init__(*a)
        self.args = self.p["args"]
        self.bufs = {a["n"]: [] for a in self.args if "n" in a}

    def update(self, x, md, who):
        self.bufs[who].append((x, md))
        if all(self.bufs.values()):
            out = []
            mds = []
            # metadata and values in upstream order, literals at their positions
            heads = {u: b.pop(0) for u, b in self.bufs.items()}
            for a in self.args:
                if "n" in a:
                    v, ml = heads[a["n"]]
                    out.append(v)
                    mds.extend(ml)
                else:
                    out.append(a["lit"])
            yield tuple(out), mds

    def holders(self):
        return [ml for b in self.bufs.values() for _, ml in b]


class M_combine_latest(MNode):
    def __init__(self, *a):
        super().__init__(*a)
        self.last = {u: None for u in self.u}
        eo = self.p.get("emit_on")
        if eo is None:
            self.emit_on = None  # all current inputs
        elif "idx" in eo:
            self.emit_on = {self.u[eo["idx"]]}
        elif "stream" in eo:
            self.emit_on = {self.u[eo["stream"]]}
        else:
            self.emit_on = {self.u[j] for _, j in eo["list"]}

    def update(self, x, md, who):
        self.last[who] = (x, md)
        if all(v is not None for v in self.last.values()) and \
                (self.emit_on is None or who in self.emit_on):
            vals = [self.last[u] for u in self.u]
            yield tuple(v for v, _ in vals), [m for _, ml in vals for m in ml]

    def holders(self):
        return [v[1] for v in self.last.values() if v is not None]


class M_zip_latest(MNode):
    def __init__(self, *a):
        super().__init__(*a)
        self.last = {u: None for u in self.u[1:]}
        self.pending = []

    def update(self, x, md, who):
        if who == self.u[0]:
            self.pending.append((x, md))
        else:
            self.last[who] = (x, md)
        if all(v is not None for v in self.last.values()):
            while self.pending:
                lx, lmd = self.pending.pop(0)
                vals = [(lx, lmd)] + [self.last[u] for u in self.u[1:]]
                yield tuple(v for v, _ in vals), [m for _, ml in vals for m in ml]

    def holders(self):
        return [ml for _, ml in self.pending] + \
               [v[1] for v in self.last.values() if v is not None]


class M_sink(MNode):
    def update(self, x, md, who):
        fa = self.g.faults.get(self.i)
        c = self.calls
        self.calls += 1
        if fa and c in fa:
            self.g.log.append((self.i, x, md))
            raise Boom(("c", self.i, c))
        yield x, md


KINDS = {k[2:]: v for k, v in globals().items() if k.startswith("M_")}


class ModelGraph:
    def __init__(self, spec, faults=None):
        self.spec = spec
        self.faults = faults or {}
        self.log = []  # (node id, x, md): emissions of every node, deliveries at every sink
        self.nodes = [KINDS[nd["k"]](i, nd, self) for i, nd in enumerate(spec["nodes"])]
        n = len(self.nodes)
        self.children = [[c for c in range(n) if i in spec["nodes"][c]["u"]] for i in range(n)]
        if spec.get("fb"):
            src, dst = spec["fb"]
            self.children[src].append(dst)

    def emit(self, i, x, md=None):
        md = md or []
        self.log.append((i, x, md))
        if self.nodes[i].k == "sink":
            return
        for c in self.children[i]:
            for y, mdy in self.nodes[c].update(x, md, i):
                self.emit(c, y, mdy)

    def push(self, entry, x, md=None):
        """an emit() at an entry node"""
        self.emit(entry, x, md)

    def flush(self, i):
        y, md = self.nodes[i].flush()
        self.emit(i, y, md)

    def holders(self):
        out = []
        for nd in self.nodes:
            out.extend(nd.holders())
        return out
