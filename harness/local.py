"""Local, schedule-independent oracles: each node's *observed* output must be the documented
function of its *observed* input (DESIGN C02).  Also derives per-node I/O from the event log."""
from .elements import FUNCS, canon, vcanon
from .model import KINDS


def cprov(c):
    """does a canon() form contain an element derived from a source emission?  (ticks of a
    timed_window produce empty batches for ever; those derive from nothing and may still be in
    flight when the bounded finish phase ends)"""
    if c[0] == "E":
        return bool(c[2])
    if c[0] in ("t", "l"):
        return any(cprov(x) for x in c[1:])
    return False


class _G:
    faults = {}
    log = []


def node_io(spec, log):
    """-> (inputs, outputs): inputs[i] = [(who, x, md, t, idx)] in arrival order (parents'
    emissions merged by global log order, plus ("flush",) markers for collect);
    outputs[i] = [(x, md, t, idx)]; for sinks outputs = consumer starts."""
    n = len(spec["nodes"])
    children = [[c for c in range(n) if i in spec["nodes"][c]["u"]] for i in range(n)]
    inputs = [[] for _ in range(n)]
    outputs = [[] for _ in range(n)]
    for idx, ev in enumerate(log.events):
        if ev[0] == "rec":
            i = ev[1]
            outputs[i].append((ev[2], ev[3], ev[4], idx))
        elif ev[0] == "arr":
            inputs[ev[1]].append((ev[2], ev[3], ev[4], ev[5], idx))
        elif ev[0] == "cs":
            outputs[ev[1]].append((ev[3], None, ev[4], idx))
        elif ev[0] == "flush":
            inputs[ev[1]].append(("flush",))
    return inputs, outputs


def has_zip_below(spec, i):
    n = len(spec["nodes"])
    seen, stack = set(), [i]
    while stack:
        j = stack.pop()
        for c in range(n):
            if j in spec["nodes"][c]["u"] and c not in seen:
                seen.add(c)
                stack.append(c)
    return any(spec["nodes"][c]["k"] == "zip" for c in seen)


def expected_sync(i, nd, ins, faults=None):
    """documented outputs of a synchronous node for the observed arrivals (values + md).
    faults: invocation indices of this node's user function that raise: the node keeps the state
    it had before the call and the element counts as never offered."""
    from .elements import Boom
    g = _G()
    if faults:
        g = _G()
        g.faults = {i: set(faults)}
    m = KINDS[nd["k"]](i, nd, g)
    out = []
    for a in ins:
        if a[0] == "flush":
            out.append(m.flush())
            continue
        who, x, md = a[0], a[1], a[2]
        try:
            out.extend(list(m.update(x, md or [], who)))
        except Boom:
            pass
    return out, m


def check_node(pid, spec, i, ins, outs, complete=True):
    """-> list of (signature, detail).  complete=False: only prefix/order is required (the node
    may legitimately still hold elements)."""
    nd = spec["nodes"][i]
    k = nd["k"]
    got = [canon(o[0]) for o in outs]
    sig = lambda what: "%s:%s:%s" % (pid, k, what)  # noqa: E731
    arrivals = [a for a in ins if a[0] != "flush"]
    if k in KINDS and k not in ("sink",):
        exp, _ = expected_sync(i, nd, ins)
        exp = [canon(x) for x, _ in exp]
        if got != exp:
            return [(sig("output-differs"), "node %d %s: got %s expected %s" % (
                i, nd["p"], got[:6], exp[:6]))]
        return []
    xs = [canon(a[1]) for a in arrivals]
    if k in ("sink", "buffer", "delay", "rate_limit"):
        exp = xs
    elif k == "map_async":
        exp = [canon(FUNCS[nd["p"]["f"]](a[1])) for a in arrivals]
    elif k == "timed_window":
        bad = [o[0] for o in outs if not isinstance(o[0], list)]
        if bad:
            return [(sig("batch-type"), "timed_window emitted %r" % (bad[:2],))]
        got = [canon(x) for o in outs for x in o[0]]
        exp = xs
    elif k == "partition_t":
        n = nd["p"]["n"]
        keyf = FUNCS[nd["p"]["key"]] if nd["p"].get("key") else (lambda x: None)
        for o in outs:
            b = o[0]
            if not isinstance(b, tuple) or not (1 <= len(b) <= n):
                return [(sig("batch-shape"), "partition(n=%d) emitted %r" % (n, b))]
            if len({keyf(x) for x in b}) != 1:
                return [(sig("mixed-keys"), "partition emitted %r" % (b,))]
        keys = []
        for a in arrivals:
            kk = keyf(a[1])
            if kk not in keys:
                keys.append(kk)
        for kk in keys:
            g = [canon(x) for o in outs for x in o[0] if keyf(x) == kk]
            e = [canon(a[1]) for a in arrivals if keyf(a[1]) == kk]
            if g != e[:len(g)]:
                return [(sig("output-differs"), "key %r: got %s expected %s" % (kk, g[:6], e[:6]))]
            if complete and any(cprov(c) for c in e[len(g):]):
                return [(sig("output-lost"), "key %r: got %d of %d" % (kk, len(g), len(e)))]
        return []
    elif k == "latest":
        # in-order subsequence without repeats
        idxs = []
        pos = 0
        for gx in got:
            while pos < len(xs) and xs[pos] != gx:
                pos += 1
            if pos >= len(xs):
                return [(sig("not-a-subsequence"), "got %s of arrivals %s" % (got[:6], xs[:8]))]
            idxs.append(pos)
            pos += 1
        return []
    else:
        return []
    if got != exp[:len(got)]:
        j = 0
        while j < min(len(got), len(exp)) and got[j] == exp[j]:
            j += 1
        what = "output-extra" if got[:len(exp)] == exp else "output-differs"
        return [(sig(what), "node %d %s: at %d got %s expected %s" % (
            i, nd["p"], j, got[j:j + 4], exp[j:j + 4]))]
    if complete and any(cprov(c) for c in exp[len(got):]):
        return [(sig("output-lost"), "node %d %s: delivered %d of %d: missing %s" % (
            i, nd["p"], len(got), len(exp), exp[len(got):len(got) + 4]))]
    return []
