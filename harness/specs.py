"""Typed, constructive pipeline specs (DESIGN 2.3): strategy, JSON form, real-graph builder.

A spec is {"nodes": [node...], "fb": [src, entry] | None}; node = {"k": kind, "u": [parent ids],
"p": params, "t": output type}.  Types: "E" | "I" (literal int) | ["L", t] (tuple, variable
length) | ["LL", t] (list, variable length) | ["H", [t...]] (fixed tuple).
Every generated spec is valid by construction: no assume()/filter() rejection.
"""
from hypothesis import strategies as st

import streamz
import streamz.core as score
from streamz import Stream

from .elements import FUNCS, Rec, Consumer, Jobs, E, boom

SYNC_KINDS = ["map", "starmap", "filter", "accumulate", "slice", "partition", "partition_unique",
              "sliding_window", "unique", "flatten", "pluck", "collect", "union", "zip",
              "combine_latest", "zip_latest", "sink"]
ASYNC_KINDS = ["buffer", "delay", "rate_limit", "map_async", "timed_window", "partition_t",
               "timed_window_unique", "latest"]
NEEDS_LOOP = {"partition", "partition_t", "buffer", "delay", "rate_limit", "map_async",
              "timed_window", "timed_window_unique", "latest"}
JOINS = {"union", "zip", "combine_latest", "zip_latest"}
# kinds allowed on a feedback cycle: their state (if any) is final before they emit
CYCLE_OK = {"map", "starmap", "filter", "unique", "flatten", "pluck", "union", "accumulate",
            "entry", "partition", "partition_unique", "zip", "combine_latest", "zip_latest",
            "sliding_window"}
INTERVALS = [0.5, 1.0, 2.0]


def depth(t):
    if t in ("E", "I"):
        return 0
    if t[0] in ("L", "LL"):
        return 1 + depth(t[1])
    return 1 + max([depth(x) for x in t[1]] or [0])


def is_seq(t):
    return isinstance(t, list)


def flat_elem(t):
    """element type if flatten is well-typed on t, else None"""
    if not is_seq(t):
        return None
    if t[0] in ("L", "LL"):
        return t[1]
    if t[1] and all(x == t[1][0] for x in t[1]):
        return t[1][0]
    return None


def offered(t, kinds, maxdepth=3):
    """kinds applicable to a parent of type t"""
    out = []
    d = depth(t)
    for k in kinds:
        if k in ("map", "filter", "accumulate", "slice", "unique", "union", "sink", "buffer",
                 "delay", "rate_limit", "map_async", "latest"):
            out.append(k)
        elif k in ("partition", "partition_unique", "sliding_window", "collect", "zip",
                   "combine_latest", "zip_latest", "timed_window", "partition_t",
                   "timed_window_unique"):
            if d < maxdepth:
                out.append(k)
        elif k == "starmap":
            if is_seq(t) and t[0] in ("L", "H"):
                out.append(k)
        elif k == "pluck":
            if is_seq(t) and t[0] == "H" and len(t[1]) >= 1:
                out.append(k)
        elif k == "flatten":
            if flat_elem(t) is not None:
                out.append(k)
    return out


def interval_arg(p):
    """the interval as the caller spells it: a number, a duration string, or a numpy scalar"""
    if "i_str" in p:
        return p["i_str"]
    if "i_np" in p:
        import numpy as np
        return getattr(np, p["i_np"])(p["i"])
    return p["i"]


def idx_key(t):
    """a key that is not callable (documented: then it is an index into the element): position 0
    of a tuple-typed element whose first component is a plain element"""
    return ["idx0"] if is_seq(t) and t[0] == "H" and t[1] and t[1][0] == "E" else []


def key_arg(i, p, fn):
    return 0 if p["key"] == "idx0" else fn(i, p["key"])


@st.composite
def node_params(draw, k, t, nodes, me_parent, maxdepth):
    """returns (params, parents, out_type)"""
    p = {}
    u = [me_parent]
    d = depth(t)
    if k == "map" or k == "map_async":
        fs = ["size", "tsum"]
        if d < maxdepth:
            fs.append("wrap")
        if t == "E":
            fs += ["inc", "dbl", "neg", "inc", "dbl"]
            if d < maxdepth:
                fs.append("pair")
        if k == "map":
            fs.append("poly")       # map(f, *args, **kwargs): extra arguments handed to f
            fs.append("viadict")    # map(wrap into a dict).pluck(tuple key | string key)
        f = draw(st.sampled_from(fs))
        p["f"] = f
        ot = {"wrap": ["H", [t]], "pair": ["H", ["E", "E"]]}.get(f, "E" if f != "wrap" else None)
        if f in ("inc", "dbl", "neg", "size", "tsum", "poly"):
            ot = "E"
        if f == "viadict":
            ot = t
        if f == "poly":
            p["args"] = draw(st.lists(st.integers(0, 5), max_size=2))
            p["kw"] = draw(st.sampled_from([{}, {}, {"k": 1}, {"k": 4, "j": 2}]))
        if k == "map_async":
            p["par"] = draw(st.integers(1, 3))
    elif k == "starmap":
        fs = ["cnt", "poly"]
        if t[0] == "H" and len(t[1]) == 2:
            fs.append("add2")
        p["f"] = draw(st.sampled_from(fs))
        if p["f"] == "poly":    # starmap(f, *args, **kwargs)
            p["args"] = draw(st.lists(st.integers(0, 5), max_size=2))
            p["kw"] = draw(st.sampled_from([{}, {}, {"k": 1}, {"k": 4, "j": 2}]))
        ot = "E"
    elif k == "filter":
        p["f"] = draw(st.sampled_from(["is_even", "lt3"]))
        ot = t
    elif k == "accumulate":
        f = draw(st.sampled_from(["acc_add", "acc_max", "acc_count", "acc_rs"]))
        p["f"] = f
        has_start = True
        if t == "E" and f in ("acc_add", "acc_max"):
            has_start = draw(st.booleans())
        p["start"] = draw(st.integers(0, 5)) if has_start else None
        p["rs"] = f == "acc_rs"
        p["ws"] = draw(st.booleans()) if d < maxdepth else False
        ot = ["H", ["E", "E"]] if p["ws"] else "E"
    elif k == "slice":
        p["a"] = draw(st.sampled_from([None, 0, 1, 2, 3]))
        p["b"] = draw(st.sampled_from([None, None, 0, 1, 2, 3, 5, 8]))
        p["c"] = draw(st.sampled_from([None, 1, 2, 3]))
        ot = t
    elif k in ("partition", "partition_t"):
        p["n"] = draw(st.integers(1, 4))
        p["key"] = draw(st.sampled_from([None, None, "key_mod2", "key_self"] + idx_key(t)))
        if k == "partition_t":
            p["timeout"] = draw(st.sampled_from(INTERVALS + [0]))   # 0: next turn of the loop
            ot = ["L", t]
        else:
            ot = ["H", [t] * p["n"]]
    elif k == "partition_unique":
        p["key"] = draw(st.sampled_from(["key_self", "key_mod2", "key_mod3"] + idx_key(t)))
        p["n"] = draw(st.integers(1, {"key_mod2": 2, "key_mod3": 3}.get(p["key"], 3)))
        p["keep"] = draw(st.sampled_from(["first", "last"]))
        ot = ["H", [t] * p["n"]]
    elif k == "sliding_window":
        p["n"] = draw(st.integers(1, 4))
        p["partial"] = draw(st.booleans())
        ot = ["L", t] if p["partial"] else ["H", [t] * p["n"]]
    elif k == "unique":
        p["maxsize"] = draw(st.sampled_from([None, None, 1, 2, 3]))
        p["key"] = draw(st.sampled_from(["key_self", "key_mod2", "key_mod3"]))
        p["hashable"] = draw(st.booleans())
        ot = t
    elif k == "flatten":
        ot = flat_elem(t)
    elif k == "pluck":
        n = len(t[1])
        if draw(st.booleans()) or d >= maxdepth + 1:
            i = draw(st.integers(0, n - 1))
            p["pick"] = i
            ot = t[1][i]
        else:
            idx = draw(st.lists(st.integers(0, n - 1), min_size=1, max_size=3))
            p["pick"] = idx
            ot = ["H", [t[1][i] for i in idx]]
    elif k == "collect":
        ot = ["L", t]
    elif k == "union":
        same = [i for i, nd in enumerate(nodes)
                if nd["t"] == t and nd["k"] != "sink" and i != me_parent]
        extra = draw(st.lists(st.sampled_from(same), max_size=2, unique=True)) if same else []
        u = [me_parent] + extra
        ot = t
    elif k in ("zip", "combine_latest", "zip_latest"):
        others = [i for i, nd in enumerate(nodes) if nd["k"] != "sink" and i != me_parent
                  and depth(nd["t"]) < maxdepth]
        extra = draw(st.lists(st.sampled_from(others), max_size=2, unique=True)) if others else []
        u = [me_parent] + extra
        if len(u) > 1 and draw(st.booleans()):
            # the "me" parent need not be first
            j = draw(st.integers(0, len(u) - 1))
            u[0], u[j] = u[j], u[0]
        types = [nodes[i]["t"] for i in u]
        if k == "zip":
            p["maxsize"] = draw(st.sampled_from([1, 2, 10]))
            args = [{"n": i} for i in u]
            if draw(st.integers(0, 3)) == 0:
                nl = draw(st.integers(1, 2))
                for _ in range(nl):
                    pos = draw(st.integers(0, len(args)))
                    args.insert(pos, {"lit": draw(st.integers(0, 9))})
            p["args"] = args
            types = [nodes[a["n"]]["t"] if "n" in a else "I" for a in args]
        elif k == "combine_latest":
            form = draw(st.sampled_from(["none", "none", "idx", "stream", "list"]))
            if form == "none":
                p["emit_on"] = None
            elif form == "idx":
                p["emit_on"] = {"idx": draw(st.integers(0, len(u) - 1))}
            elif form == "stream":
                p["emit_on"] = {"stream": draw(st.integers(0, len(u) - 1))}
            else:
                p["emit_on"] = {"list": draw(st.lists(
                    st.tuples(st.booleans(), st.integers(0, len(u) - 1)), min_size=1,
                    max_size=len(u)).map(lambda l: [list(x) for x in l]))}
        ot = ["H", types]
    elif k == "sink":
        ot = None
    elif k == "buffer":
        p["n"] = draw(st.integers(1, 3))
        ot = t
    elif k in ("delay", "rate_limit"):
        p["i"] = draw(st.sampled_from(INTERVALS + INTERVALS + [0]))
        ot = t
    elif k == "timed_window":
        p["i"] = draw(st.sampled_from(INTERVALS))
        ot = ["LL", t]
    elif k == "timed_window_unique":
        p["i"] = draw(st.sampled_from(INTERVALS))
        p["key"] = draw(st.sampled_from(["key_self", "key_mod2", "key_mod3"] + idx_key(t)))
        p["keep"] = draw(st.sampled_from(["first", "last"]))
        ot = ["L", t]
    elif k == "latest":
        ot = t
    else:
        raise AssertionError(k)
    return p, u, ot


def reaches_only_via(nodes, src, guard):
    """True iff every path from any entry to src passes through guard, and every node on a path
    guard -> src has a kind in CYCLE_OK."""
    # ancestors of src with guard removed must contain no entry
    seen = set()
    stack = [src]
    while stack:
        i = stack.pop()
        if i in seen or i == guard:
            continue
        seen.add(i)
        if nodes[i]["k"] == "entry":
            return False
        if nodes[i]["k"] not in CYCLE_OK:
            return False
        stack.extend(nodes[i]["u"])
    return True


@st.composite
def pipeline_spec(draw, kinds=None, min_nodes=1, max_nodes=7, max_entries=3, feedback=True,
                  maxdepth=2, force_first=None, force_feedback=False):
    kinds = list(kinds or SYNC_KINDS)
    n_entries = draw(st.integers(1, max_entries))
    nodes = [{"k": "entry", "u": [], "p": {}, "t": "E"} for _ in range(n_entries)]
    n = draw(st.integers(min_nodes, max_nodes))
    guard = None
    want_fb = feedback and (force_feedback or draw(st.integers(0, 3)) == 0)
    if want_fb:
        nodes.append({"k": "unique", "u": [0],
                      "p": {"maxsize": None, "key": "key_self", "hashable": draw(st.booleans())},
                      "t": "E"})
        guard = len(nodes) - 1
    for j in range(n):
        cands = [i for i, nd in enumerate(nodes) if nd["k"] != "sink"]
        # bias towards recent nodes so chains get deep, but allow any (fan-out)
        if draw(st.booleans()):
            parent = cands[-1]
        else:
            parent = draw(st.sampled_from(cands))
        t = nodes[parent]["t"]
        if force_first and j == 0:
            k = force_first
            if k not in offered(t, [k], maxdepth):
                k = draw(st.sampled_from(offered(t, kinds, maxdepth)))
        else:
            k = draw(st.sampled_from(offered(t, kinds, maxdepth)))
        p, u, ot = draw(node_params(k, t, nodes, parent, maxdepth))
        nodes.append({"k": k, "u": u, "p": p, "t": ot})
    fb = None
    if guard is not None:
        srcs = [i for i, nd in enumerate(nodes) if i > guard and nd["t"] == "E"
                and nd["k"] != "sink" and reaches_only_via(nodes, i, guard)]
        if srcs:
            fb = [srcs[-1] if draw(st.booleans()) else draw(st.sampled_from(srcs)), 0]
    return {"nodes": nodes, "fb": fb}


def needs_loop(spec):
    return any(nd["k"] in NEEDS_LOOP for nd in spec["nodes"])


def collect_ids(spec):
    return [i for i, nd in enumerate(spec["nodes"]) if nd["k"] == "collect"]


def entry_ids(spec):
    return [i for i, nd in enumerate(spec["nodes"]) if nd["k"] == "entry"]


class Built:
    def __init__(self):
        self.nodes = []
        self.recs = []
        self.consumers = {}
        self.jobs = {}
        self.keep = []


def build(spec, log, asynchronous, consumer_modes=None, faults=None, wrap_fn=None,
          record=True):
    """Build the real streamz graph.  consumer_modes: {node_id: mode}; faults: {node_id: set of
    invocation indices that raise Boom}; wrap_fn(node_id, kind, fn) lets a check intercept user
    functions."""
    from .elements import Boom
    consumer_modes = consumer_modes or {}
    faults = faults or {}
    b = Built()
    counters = {}
    ids = {}

    def fn(i, name):
        f = FUNCS[name]
        fa = faults.get(i)
        if fa:
            def g(*a, _f=f, _i=i, **k):
                c = counters.get(_i, 0)
                counters[_i] = c + 1
                if c in fa:
                    from .elements import prov as _prov
                    # accumulate's state is a digest, not data in flight: the failing
                    # invocation processes its current input only
                    args = a[-1:] if spec["nodes"][_i]["k"] == "accumulate" else a
                    ex = boom(("f", _i, c))
                    log.add("fx", _i, c, _prov(args), ex)
                    raise ex
                return _f(*a, **k)
            g.__name__ = name
            f = g
        if wrap_fn:
            f = wrap_fn(i, name, f)
        return f

    for i, nd in enumerate(spec["nodes"]):
        k, p = nd["k"], nd["p"]
        ups = [b.nodes[j] for j in nd["u"]]
        if k == "entry":
            if asynchronous == "thread":
                s = Stream(asynchronous=False)  # loop in the shared background thread
            else:
                s = Stream(asynchronous=True) if asynchronous else Stream()
        elif k == "map":
            if p["f"] == "viadict":
                from .elements import todict
                s = ups[0].map(lambda x, _f=fn(i, "viadict"): todict(_f(x))).pluck(
                    (0, 1) if i % 2 else "v")
            else:
                s = ups[0].map(fn(i, p["f"]), *p.get("args", []), **p.get("kw", {}))
        elif k == "starmap":
            s = ups[0].starmap(fn(i, p["f"]), *p.get("args", []), **p.get("kw", {}))
        elif k == "filter":
            if i % 2:       # documented alias: remove(p) == filter(not p)
                s = ups[0].remove(lambda x, _f=fn(i, p["f"]): not _f(x))
            else:
                s = ups[0].filter(fn(i, p["f"]))
        elif k == "accumulate":
            kw = {}
            if p["start"] is not None:
                kw["start"] = E(p["start"])
            if p["rs"]:
                kw["returns_state"] = True
            if p["ws"]:
                kw["with_state"] = True
            s = (ups[0].scan if i % 2 else ups[0].accumulate)(fn(i, p["f"]), **kw)   # alias
        elif k == "slice":
            s = ups[0].slice(p["a"], p["b"], p["c"])
        elif k == "partition":
            kw = {}
            if p["key"]:
                kw["key"] = key_arg(i, p, fn)
            s = ups[0].partition(p["n"], **kw)
        elif k == "partition_t":
            kw = {}
            if p["key"]:
                kw["key"] = key_arg(i, p, fn)
            s = ups[0].partition(p["n"], timeout=p["timeout"], **kw)
        elif k == "partition_unique":
            s = ups[0].partition_unique(p["n"], key=key_arg(i, p, fn), keep=p["keep"])
        elif k == "sliding_window":
            s = ups[0].sliding_window(p["n"], return_partial=p["partial"])
        elif k == "unique":
            s = ups[0].unique(maxsize=p["maxsize"], key=fn(i, p["key"]), hashable=p["hashable"])
        elif k == "flatten":
            s = ups[0].concat() if i % 2 else ups[0].flatten()   # alias
        elif k == "pluck":
            s = ups[0].pluck(p["pick"])
        elif k == "collect":
            s = ups[0].collect()
        elif k == "union":
            s = score.union(*ups)
        elif k == "zip":
            args = [b.nodes[a["n"]] if "n" in a else a["lit"] for a in p["args"]]
            s = score.zip(*args, maxsize=p["maxsize"])
        elif k == "combine_latest":
            eo = p.get("emit_on")
            kw = {}
            if eo is not None:
                if "idx" in eo:
                    kw["emit_on"] = eo["idx"]
                elif "stream" in eo:
                    kw["emit_on"] = ups[eo["stream"]]
                else:
                    kw["emit_on"] = [ups[j] if as_stream else j for as_stream, j in eo["list"]]
            s = score.combine_latest(*ups, **kw)
        elif k == "zip_latest":
            s = score.zip_latest(*ups)
        elif k == "sink":
            c = Consumer(log, i, consumer_modes.get(i, "sync"), fail_at=faults.get(i, ()))
            b.consumers[i] = c
            if i % 3 == 2:      # sink(func, *args, **kwargs): extras are handed to func
                c.extra = ((5,), {"tag": i})
                s = ups[0].sink(c, 5, tag=i)
            else:
                s = ups[0].sink(c)
        elif k == "buffer":
            s = ups[0].buffer(p["n"])
        elif k == "delay":
            s = ups[0].delay(interval_arg(p))
        elif k == "rate_limit":
            s = ups[0].rate_limit(interval_arg(p))
        elif k == "map_async":
            j = Jobs(log, i, FUNCS[p["f"]], fail_at=faults.get(i, ()))
            b.jobs[i] = j
            if i % 2:           # map_async(func, *args, **kwargs)
                j.extra = ((3,), {"tag": i})
                s = ups[0].map_async(j, 3, parallelism=p["par"], tag=i)
            else:
                s = ups[0].map_async(j, parallelism=p["par"])
        elif k == "timed_window":
            s = ups[0].timed_window(p["i"])
        elif k == "timed_window_unique":
            s = ups[0].timed_window_unique(p["i"], key=key_arg(i, p, fn), keep=p["keep"])
        elif k == "latest":
            s = ups[0].latest()
        else:
            raise AssertionError(k)
        b.nodes.append(s)
        ids[id(s)] = i
        if record and k != "entry":
            # observe arrivals exactly (instance-level wrapper; the class is untouched)
            def upd(x, who=None, metadata=None, _o=s.update, _i=i):
                md = list(metadata) if isinstance(metadata, list) else metadata
                log.add("arr", _i, ids.get(id(who)), x, md, log.now())
                return _o(x, who=who, metadata=metadata)
            s.update = upd
        if record and k != "sink":
            b.recs.append(Rec(s, log, i))
    if spec.get("fb"):
        src, dst = spec["fb"]
        b.nodes[src].connect(b.nodes[dst])
    return b


def emit_ids(spec):
    """nodes that have a recorder"""
    return [i for i, nd in enumerate(spec["nodes"]) if nd["k"] != "sink"]
