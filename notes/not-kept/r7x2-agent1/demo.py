"""C04: the completion callback must not fire while the element is still held.

A per-key router creates the branch for a key the first time it sees that key,
i.e. it connects a new downstream to the source *while the source is emitting*.
The same source also feeds a buffer whose consumer is slow.  The element carries
a reference counter: its callback must not be scheduled before the slow consumer
behind the buffer has finished with the element.
"""
import asyncio
import sys

from tornado.ioloop import IOLoop

from streamz import Stream
from streamz.core import RefCounter


async def main():
    loop = IOLoop.current()
    source = Stream(asynchronous=True)

    gate = asyncio.Event()
    handled = []          # elements the slow consumer has finished
    events = []           # chronological record

    async def slow(x):
        await gate.wait()
        handled.append(x)
        events.append(('consumer finished', x))

    source.buffer(10).sink(slow)

    branches = {}
    routed = []

    def route(x):
        key = x[0]
        if key not in branches:       # first element of this key: build its branch
            branches[key] = source.filter(lambda y, k=key: y[0] == k).sink(routed.append)

    source.sink(route)

    def completed(x):
        events.append(('completion callback', x, 'consumer done' if x in handled else 'consumer NOT done'))

    problems = []
    for i, x in enumerate([('a', 1), ('a', 2), ('b', 3)]):
        ref = RefCounter(cb=lambda x=x: completed(x), loop=loop)
        await source.emit(x, metadata=[{'ref': ref}])
        # the buffer accepted the element, its consumer is still blocked
        for _ in range(5):
            await asyncio.sleep(0)
        if x not in handled and ref.count <= 0:
            problems.append('element %r: counter is %d while the element is still '
                            'behind the buffer' % (x, ref.count))

    gate.set()
    for _ in range(50):
        await asyncio.sleep(0)
        if len(handled) == 3:
            break
    for _ in range(5):
        await asyncio.sleep(0)

    early = [e for e in events if e[0] == 'completion callback' and e[2] == 'consumer NOT done']
    for e in early:
        problems.append('completion callback of %r ran before its consumer finished' % (e[1],))
    n_cb = sum(1 for e in events if e[0] == 'completion callback')
    if len(handled) != 3:
        problems.append('consumer handled %r' % (handled,))
    if n_cb < 3:
        problems.append('only %d completion callbacks ran' % n_cb)

    if problems:
        print('FAIL')
        for p in problems:
            print('  ' + p)
        print('  events: %r' % (events,))
        return 1
    print('OK: every completion callback ran after the consumer finished')
    return 0


if __name__ == '__main__':
    sys.exit(asyncio.run(main()))
