"""C09 demo: at-least-once delivery when the broker is slow for a while.

A batch [low, high] that the source has announced lies below the high
watermark, so its messages exist; committing ``high + 1`` is only right when
all of them have gone through the pipeline.  Here the (in-memory) broker
serves the first two messages of a batch, then serves nothing for 90 seconds
(leader election, network hiccup, throttling ...), then carries on.  Time is
virtual: ``time`` inside streamz.sources is replaced by a fake clock, so the
demo runs in a fraction of a second.

Exit 1 when an offset is committed although messages below it were never
handed to the consumer (a restart with the same group id would skip them).
"""
import asyncio
import sys
import types

# --------------------------------------------------------------------------
# virtual clock
# --------------------------------------------------------------------------


class Clock:
    now = 1000.0

    def time(self):
        return self.now

    def sleep(self, dt):
        self.now += dt


CLOCK = Clock()

# --------------------------------------------------------------------------
# a tiny in-memory confluent_kafka
# --------------------------------------------------------------------------
ck = types.ModuleType('confluent_kafka')
LOGS = {}          # (topic, partition) -> list of payloads
COMMITTED = {}     # (group, topic, partition) -> offset
EVENTS = []        # ('commit', partition, offset) / ('processed', partition, offset)
STALL = {'after_offset': 2, 'seconds': 90.0, 'until': None}


class KafkaException(Exception):
    pass


class TopicPartition:
    def __init__(self, topic, partition=-1, offset=-1001):
        self.topic, self.partition, self.offset = topic, partition, offset


class Message:
    def __init__(self, topic, partition, offset, value):
        self._t, self._p, self._o, self._v = topic, partition, offset, value

    def value(self):
        return self._v

    def key(self):
        return None

    def error(self):
        return None

    def offset(self):
        return self._o

    def partition(self):
        return self._p

    def topic(self):
        return self._t


class _Meta:
    pass


class Consumer:
    def __init__(self, conf):
        self.group = conf.get('group.id')
        assert str(conf.get('enable.auto.commit')).lower() == 'false'
        self._assigned = []

    def poll(self, timeout=None):
        for tp in self._assigned:
            log = LOGS[(tp.topic, tp.partition)]
            if tp.offset >= len(log):
                continue
            if tp.offset == STALL['after_offset'] and STALL['seconds']:
                # the broker goes quiet once, for a while
                if STALL['until'] is None:
                    STALL['until'] = CLOCK.time() + STALL['seconds']
                if CLOCK.time() < STALL['until']:
                    return None
                STALL['seconds'] = 0
            m = Message(tp.topic, tp.partition, tp.offset, log[tp.offset])
            tp.offset += 1
            return m
        return None

    def assign(self, tps):
        self._assigned = [TopicPartition(t.topic, t.partition, max(t.offset, 0))
                          for t in tps]

    def get_watermark_offsets(self, tp, timeout=None, cached=False):
        if (tp.topic, tp.partition) not in LOGS:
            raise KafkaException('unknown partition')
        return 0, len(LOGS[(tp.topic, tp.partition)])

    def list_topics(self, topic=None, timeout=-1):
        md = _Meta()
        md.topics = {}
        for (t, p) in LOGS:
            tm = md.topics.setdefault(t, _Meta())
            if not hasattr(tm, 'partitions'):
                tm.partitions = {}
            tm.partitions[p] = None
        return md

    def committed(self, tps, timeout=None):
        return [TopicPartition(t.topic, t.partition,
                               COMMITTED.get((self.group, t.topic, t.partition), -1001))
                for t in tps]

    def commit(self, offsets=None, asynchronous=True):
        for t in offsets:
            COMMITTED[(self.group, t.topic, t.partition)] = t.offset
            EVENTS.append(('commit', t.partition, t.offset))

    def subscribe(self, topics):
        pass

    def unsubscribe(self):
        pass

    def close(self):
        pass


ck.KafkaException = KafkaException
ck.TopicPartition = TopicPartition
ck.Consumer = Consumer
ck.OFFSET_INVALID = -1001
sys.modules['confluent_kafka'] = ck

# --------------------------------------------------------------------------
TOPIC = 'demo'
N = 6
LOGS[(TOPIC, 0)] = [b'0:%d' % o for o in range(N)]


def consume(batch):
    for payload in batch:
        p, o = payload.split(b':')
        EVENTS.append(('processed', int(p), int(o)))


async def main():
    import streamz.sources
    from streamz import Stream

    # only get_message_batch uses the time module in streamz.sources
    streamz.sources.time = CLOCK

    params = {'bootstrap.servers': 'nowhere:9092', 'group.id': 'g',
              'auto.offset.reset': 'earliest'}
    stream = Stream.from_kafka_batched(TOPIC, params, poll_interval=0.01,
                                       asynchronous=True)
    stream.sink(consume)
    stream.start()
    for _ in range(2000):
        if COMMITTED.get(('g', TOPIC, 0)) == N:
            break
        await asyncio.sleep(0.005)
    stream.stop()
    await asyncio.sleep(0.03)


asyncio.run(main())

problems = []
seen = set()
for kind, p, o in EVENTS:
    if kind == 'processed':
        seen.add(o)
    else:
        missing = [x for x in range(o) if x not in seen]
        if missing:
            problems.append('offset %d committed, but offsets %s were never delivered: '
                            'a restart of the group starts at %d and skips them'
                            % (o, missing, o))
if not any(e[0] == 'commit' for e in EVENTS):
    problems.append('nothing was committed')

if problems:
    print('C09 VIOLATED (at-least-once)')
    for line in problems:
        print(' -', line)
    print('events:', EVENTS)
    sys.exit(1)
print('ok: all %d messages delivered before offset %d was committed' % (N, N))
