"""collect() must hold its elements in the container the caller handed in.

`collect(cache=...)` lets the caller choose the container.  A bounded deque
is the natural way to say "flush the most recent k elements"; a container
shared by two collectors merges two branches into one batch.  Both start
out EMPTY, which is all this demo needs.
"""
import sys
from collections import deque

from streamz import Stream

problems = []

# 1. a bounded cache: only the last two elements may be flushed ------------
source = Stream()
collector = source.collect(cache=deque(maxlen=2))
L = collector.sink_to_list()
for i in range(5):
    source.emit(i)
collector.flush()
source.emit(5)
collector.flush()
expected = [(3, 4), (5,)]
if L != expected:
    problems.append("bounded cache: sink saw %r, expected %r" % (L, expected))

# 2. the caller's container is the one that is used -----------------------
mine = []
source = Stream()
collector = source.collect(cache=mine)
L = collector.sink_to_list()
source.emit('a')
source.emit('b')
if mine != ['a', 'b']:
    problems.append("caller's cache holds %r, expected ['a', 'b']" % (mine,))

# 3. one cache shared by two collectors: a flush delivers the interleaving --
shared = deque()
left, right = Stream(), Stream()
c_left = left.collect(cache=shared)
c_right = right.collect(cache=shared)
L = c_left.sink_to_list()
left.emit(1)
right.emit(10)
left.emit(2)
right.emit(20)
c_left.flush()
expected = [(1, 10, 2, 20)]
if L != expected:
    problems.append("shared cache: sink saw %r, expected %r" % (L, expected))

if problems:
    print("collect ignores the cache it was given:")
    for p in problems:
        print("  -", p)
    sys.exit(1)
print("ok")
