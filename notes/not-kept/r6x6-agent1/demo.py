"""C06: an aggregation over an elementwise expression must equal the pandas
aggregation over everything seen so far -- whatever the order of the operands
in the expression.

The expression here is the deviation of every new row from the running mean,
written with the running aggregate on the LEFT of the streaming column:

    dev = sdf.x.mean() - sdf.x            (and  sdf.x.sum() / sdf.x  etc.)

`dev` yields one pandas Series per batch (that part is checked too), and
dev.sum() / dev.count() / dev.mean() have to fold all batches seen so far.
"""
import sys

import numpy as np
import pandas as pd

from streamz.dataframe import DataFrame

df = pd.DataFrame({'x': [4., 1., 7., 3., 9., 2., 8., 6., 5., 10.],
                   'y': [1., 2., 3., 4., 5., 6., 7., 8., 9., 10.]})
batches = [df.iloc[0:3], df.iloc[3:3], df.iloc[3:7], df.iloc[7:8], df.iloc[8:10]]

problems = []


def close(a, b):
    return bool(np.isclose(a, b, rtol=1e-9, atol=1e-9, equal_nan=True))


def check(label, build_expr, pandas_expr):
    """build_expr(sdf) -> streaming expression; pandas_expr(seen, batch) -> Series"""
    sdf = DataFrame(example=df.iloc[:0])
    expr = build_expr(sdf)
    per_batch = expr.stream.sink_to_list()
    outs = {name: getattr(expr, name)().stream.sink_to_list()
            for name in ('sum', 'count', 'mean')}

    pieces = []
    for k, b in enumerate(batches):
        sdf.emit(b)
        seen = pd.concat(batches[:k + 1])
        piece = pandas_expr(seen, b)
        pieces.append(piece)
        everything = pd.concat(pieces)

        got_piece = per_batch[-1]
        if len(got_piece) != len(piece) or not np.allclose(
                np.asarray(got_piece, float), np.asarray(piece, float)):
            problems.append('%s: elementwise result of batch %d differs' % (label, k))

        for name, L in outs.items():
            if len(L) != k + 1:
                problems.append('%s.%s(): %d emissions after %d batches'
                                % (label, name, len(L), k + 1))
                continue
            want = getattr(everything, name)()
            if not close(L[-1], want):
                problems.append('%s.%s() after batch %d: got %r, pandas over all '
                                'rows seen so far gives %r'
                                % (label, name, k, L[-1], want))


# reference: the same expression with the streaming column on the left
check('(sdf.x - sdf.x.mean())',
      lambda s: s.x - s.x.mean(),
      lambda seen, b: b.x - seen.x.mean())

# running aggregate on the left
check('(sdf.x.mean() - sdf.x)',
      lambda s: s.x.mean() - s.x,
      lambda seen, b: seen.x.mean() - b.x)

check('(sdf.y.sum() / sdf.x)',
      lambda s: s.y.sum() / s.x,
      lambda seen, b: seen.y.sum() / b.x)

if problems:
    print('FAIL: streaming aggregation differs from pandas on everything seen so far')
    for p in problems[:12]:
        print('  -', p)
    if len(problems) > 12:
        print('  ... and %d more' % (len(problems) - 12))
    sys.exit(1)
print('OK')
