"""C15: after connect/disconnect/destroy calls the upstream and downstream
links are mutually consistent and data follows the edges that exist.

A combine_latest node whose explicit ``emit_on`` input is disconnected (or
which is destroyed) must end up with both ends of the edge updated."""
import sys
from streamz import Stream


def inconsistent_edges(nodes):
    bad = []
    for up in nodes:
        for node in nodes:
            down_side = node in list(up.downstreams)
            up_side = any(u is up for u in node.upstreams)
            if down_side != up_side:
                bad.append("%s -> %s: in upstream.downstreams=%s, "
                           "in downstream.upstreams=%s"
                           % (up.name, node.name, down_side, up_side))
    return bad


def scenario(edit):
    a = Stream(stream_name='a')
    b = Stream(stream_name='b')
    x = a.combine_latest(b, emit_on=a, stream_name='x')
    L = x.sink_to_list()
    a.emit(1)
    b.emit(2)
    a.emit(3)
    assert L == [(3, 2)], L           # data has flowed through the node

    error = None
    try:
        edit(a, b, x)
    except Exception as e:           # the edit may be refused ...
        error = e

    problems = inconsistent_edges([a, b, x])   # ... but never half done
    # delivery must follow the links the node reports
    del L[:]
    b.emit(20)
    a.emit(10)
    if any(u is a for u in x.upstreams) and any(u is b for u in x.upstreams):
        if L != [(10, 20)]:
            problems.append("x lists a and b as inputs and emits on a, but "
                            "a.emit(10) produced %r" % (L,))
    return error, problems


failed = False
for label, edit in [
        ("a.disconnect(x)", lambda a, b, x: a.disconnect(x)),
        ("x.destroy()", lambda a, b, x: x.destroy())]:
    error, problems = scenario(edit)
    if problems:
        failed = True
        print("%s (raised %r) left the graph inconsistent:" % (label, error))
        for p in problems:
            print("   ", p)

if failed:
    sys.exit(1)
print("ok")
