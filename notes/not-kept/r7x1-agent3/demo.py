"""C01: sibling branches see each element in the order in which they were
attached, and every branch sees every element exactly once.

Wiring a pair of nodes that is wired already (``connect`` is set-like: the
downstream registry is a set, so the second call registers nothing new) must
not change that order.  This happens in practice when a helper "makes sure"
that a node built with ``upstream=`` is hooked up, or when a graph is
assembled from a list of edges that names an edge twice.
"""
import sys

from streamz import Stream


def build():
    source = Stream()
    trace = []
    first = source.map(lambda x: trace.append(('first', x)))
    second = source.map(lambda x: trace.append(('second', x)))
    third = source.sink(lambda x: trace.append(('third', x)))
    return source, trace, (first, second, third)


def main():
    problems = []

    # 1. order of attachment, plain
    source, trace, branches = build()
    for x in range(2):
        source.emit(x)
    expected = [(name, x) for x in range(2)
                for name in ('first', 'second', 'third')]
    if trace != expected:
        problems.append(("plain", trace, expected))

    # 2. the first branch is connected a second time: nothing new is attached,
    #    so each element is still seen once per branch, in the original order
    source, trace, (first, second, third) = build()
    source.emit(0)
    source.connect(first)
    source.emit(1)
    source.emit(2)
    expected = [(name, x) for x in range(3)
                for name in ('first', 'second', 'third')]
    if trace != expected:
        problems.append(("first branch connected twice", trace, expected))

    # 3. observable consequence downstream: a diamond whose result depends on
    #    which side is served first (combine_latest emitting on one side only)
    s = Stream()
    a = s.pluck(0)
    b = s.pluck(1)
    out = a.combine_latest(b, emit_on=a).sink_to_list()
    s.emit((1, 'red'))
    s.connect(a)           # already connected
    s.emit((2, 'blue'))
    s.emit((3, 'green'))
    # a is served before b: a's value is paired with the *previous* b
    expected = [(2, 'red'), (3, 'blue')]
    if out != expected:
        problems.append(("diamond", out, expected))

    for name, got, expected in problems:
        print("%s:\n   got      %r\n   expected %r" % (name, got, expected))
    if problems:
        sys.exit(1)
    print("ok")


if __name__ == '__main__':
    main()
