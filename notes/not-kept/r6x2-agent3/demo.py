"""C03 (threaded operation, no deadlock): events that come in through a
threading.Queue (Stream.from_q) are forwarded into a second pipeline by a sink
that simply calls ``other.emit`` -- the usual way to feed one stream graph from
another.  Both graphs use the default mode (event loop in a background thread).

Every consumer completes at once (the target is a buffer followed by a list),
so every emit has to complete and every event has to arrive.
"""
import os
import queue
import sys
import time

from streamz import Stream


def main():
    # target pipeline: plain Stream() + buffer => loop in the background thread
    other = Stream()
    arrived = other.buffer(4).sink_to_list()

    q = queue.Queue()
    source = Stream.from_q(q, sleep_time=0.005)
    seen_by_forwarder = []

    def forward(x):
        seen_by_forwarder.append(x)
        return other.emit(x)          # hand the awaitable (if any) back to the source

    source.sink(forward)
    source.start()

    events = [0, 1, 2]
    for x in events:
        q.put(x)

    deadline = time.time() + 3
    while time.time() < deadline and arrived != events:
        time.sleep(0.01)

    if arrived != events:
        # is the loop still alive at all?  A blocking emit from this thread
        # needs the loop to run one callback.
        probe = Stream()
        got = probe.buffer(1).sink_to_list()
        import threading
        t = threading.Thread(target=probe.emit, args=("ping",), daemon=True)
        t.start()
        t.join(1)
        print("FAIL: put %r on the queue; the forwarding sink saw %r, the target pipeline "
              "received %r; a fresh blocking emit on the same background loop %s"
              % (events, seen_by_forwarder, arrived,
                 "never returned (loop is dead-locked)" if t.is_alive() else "returned"))
        return 1
    print("OK", arrived)
    return 0


if __name__ == "__main__":
    rc = main()
    sys.stdout.flush()
    os._exit(rc)      # the background loop thread may be blocked for good
