"""C13: none of the elements sent through rate_limit may be lost, and they must
come out in arrival order, at least `interval` apart.

The pipeline is assembled first (at "module level"), and the event loop that
drives it is started afterwards with asyncio.run() -- the usual layout of an
asyncio program.  A burst of four elements is pushed in; all four have to come
out, in order, spaced by the interval.
"""
import asyncio
import sys
import time
import warnings

warnings.simplefilter("ignore", DeprecationWarning)

from streamz import Stream  # noqa: E402

INTERVAL = 0.05

# assembled before any loop runs
source = Stream(asynchronous=True)
out = []
source.rate_limit(INTERVAL).sink(lambda x: out.append((x, time.time())))


async def main():
    futures = [source.emit(i) for i in range(4)]      # a burst
    done, pending = await asyncio.wait(
        [asyncio.ensure_future(f) for f in futures], timeout=40 * INTERVAL)
    return len(pending)


pending = asyncio.run(main())

values = [x for x, _ in out]
problems = []
if values != [0, 1, 2, 3]:
    problems.append("burst [0, 1, 2, 3] went in, %r came out (%d emits still "
                    "waiting after %.1f s)" % (values, pending, 40 * INTERVAL))
gaps = [b[1] - a[1] for a, b in zip(out, out[1:])]
if any(g < INTERVAL * 0.8 for g in gaps):
    problems.append("deliveries closer than the interval: gaps %r" % gaps)

if problems:
    print("FAIL (C13 rate_limit):")
    for p in problems:
        print("  -", p)
    sys.exit(1)
print("ok: all four elements delivered in order, gaps", [round(g, 3) for g in gaps])
