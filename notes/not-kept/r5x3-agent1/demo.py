"""C03 demo: from_textfile must wait for the consumers of one line before it
hands on the next line, also when several lines arrive in one read of the file.

exit 0: backpressure holds; exit 1: the source ran ahead of its consumers.
"""
import asyncio
import os
import sys
import tempfile

from streamz import Stream

NLINES = 8


async def spin(n=200):
    for _ in range(n):
        await asyncio.sleep(0)


async def scenario_direct(path):
    """source -> map(record) -> async sink; no buffering node anywhere"""
    problems = []
    handed_on = []      # lines the source has pushed into the pipeline
    started = []        # lines the consumer has started to handle
    gates = {}

    def record(x):
        handed_on.append(x)
        return x

    async def consumer(x):
        started.append(x)
        gates[x] = asyncio.Event()
        await gates[x].wait()

    source = Stream.from_textfile(path, poll_interval=0.01, asynchronous=True)
    source.map(record).sink(consumer)
    source.start()

    for i in range(NLINES):
        await spin()
        # the consumer of line i is still busy: line i+1 must not be handed on
        if len(handed_on) != i + 1:
            problems.append(
                "direct: consumer has finished %d line(s) and is busy with one, "
                "but the source has already handed on %d lines"
                % (i, len(handed_on)))
            break
        gates[handed_on[i]].set()
    # liveness: let everything drain
    for _ in range(NLINES):
        await spin()
        for g in gates.values():
            g.set()
    await spin()
    source.stop()
    expected = ["line%d\n" % i for i in range(NLINES)]
    if started != expected:
        problems.append("direct: consumer saw %r" % (started,))
    return problems


async def scenario_buffer(path, n=2):
    """source -> map(record) -> buffer(n) -> async sink

    In flight (handed on by the source, not yet finished by the consumer) can
    be at most: n in the queue + 1 taken out by the buffer and being consumed
    + 1 blocked put of the source.
    """
    problems = []
    handed_on = []
    done = []
    gate = asyncio.Event()

    def record(x):
        handed_on.append(x)
        return x

    async def consumer(x):
        await gate.wait()
        done.append(x)

    source = Stream.from_textfile(path, poll_interval=0.01, asynchronous=True)
    source.map(record).buffer(n).sink(consumer)
    source.start()
    await spin(400)
    in_flight = len(handed_on) - len(done)
    if in_flight > n + 2:
        problems.append(
            "buffer(%d): %d lines in flight while the consumer is stuck "
            "(bound is %d)" % (n, in_flight, n + 2))
    gate.set()
    await spin(400)
    source.stop()
    if len(done) != NLINES:
        problems.append("buffer(%d): only %d of %d lines arrived"
                        % (n, len(done), NLINES))
    return problems


async def main():
    fd, path = tempfile.mkstemp(suffix=".txt")
    try:
        with os.fdopen(fd, "w") as f:
            f.write("".join("line%d\n" % i for i in range(NLINES)))
        problems = await scenario_direct(path)
        problems += await scenario_buffer(path)
    finally:
        os.remove(path)
    return problems


if __name__ == "__main__":
    problems = asyncio.run(main())
    for p in problems:
        print("VIOLATION:", p)
    if problems:
        sys.exit(1)
    print("ok")
    sys.exit(0)
