"""An element that is in flight inside map_async must still be delivered, exactly once,
whenever ``start()`` happens to be called on the pipeline.

Pipeline:  source -> map_async(work) -> sink   (native coroutine / Tornado coroutine)

``Stream.start()`` ("start any upstream sources") is called on the last node of a
pipeline and walks upstream, so it passes through map_async.start().  Calling it on
a pipeline that is already carrying data (e.g. to start a second source that was
attached later, or simply twice) has to be harmless: the elements that producers
have emitted already are delivered once and in order, no matter whether the mapped
coroutine / the consumer of the current element has completed yet.

Everything is driven by explicit gates; no real sleeps.
"""
import asyncio
import logging
import sys

from tornado import gen

from streamz import Stream

logging.getLogger("streamz").setLevel(logging.CRITICAL)

N = 4


async def spin(cond, rounds=2000):
    for _ in range(rounds):
        if cond():
            return True
        await asyncio.sleep(0)
    return cond()


async def scenario(consumer, start_at):
    """start_at: 'mapping'   -> start() while the coroutine of element 0 is pending
                 'consuming' -> start() while the sink of element 0 is pending
                 'idle'      -> start() only while nothing is in flight"""
    loop = asyncio.get_running_loop()
    gates = {}
    sink_gates = {}
    received = []
    completed = []

    async def work(x):
        gates[x] = loop.create_future()
        await gates[x]
        return x * 10

    async def native_sink(x):
        received.append(x)
        sink_gates[x] = loop.create_future()
        await sink_gates[x]
        completed.append(x)

    @gen.coroutine
    def tornado_sink(x):
        received.append(x)
        sink_gates[x] = loop.create_future()
        yield sink_gates[x]
        completed.append(x)

    source = Stream(asynchronous=True)
    last = source.map_async(work).sink(native_sink if consumer == "native" else tornado_sink)

    if start_at == "idle":
        last.start()

    async def produce():
        for i in range(N):
            await source.emit(i)

    producer = asyncio.ensure_future(produce())

    await spin(lambda: 0 in gates)            # the coroutine of element 0 is running
    if start_at == "mapping":
        last.start()
        await asyncio.sleep(0)
    if not gates[0].done():                   # (a cancelled coroutine leaves a cancelled gate)
        gates[0].set_result(None)
    if start_at == "consuming":
        await spin(lambda: 0 in sink_gates)   # the consumer of element 0 is running
        last.start()
        await asyncio.sleep(0)

    # let everything else complete, strictly in emission order
    for i in range(N):
        if await spin(lambda: i in gates, rounds=300):
            if not gates[i].done():
                gates[i].set_result(None)
        if await spin(lambda: i * 10 in sink_gates, rounds=300):
            if not sink_gates[i * 10].done():
                sink_gates[i * 10].set_result(None)
    await spin(lambda: len(completed) >= N, rounds=300)
    if start_at == "idle":
        last.start()                          # nothing in flight: harmless in any case
        await spin(lambda: False, rounds=20)
    producer.cancel()
    return received, completed


def main():
    expected = [i * 10 for i in range(N)]
    bad = []
    for consumer in ("native", "tornado"):
        for start_at in ("idle", "mapping", "consuming"):
            received, completed = asyncio.run(scenario(consumer, start_at))
            if received != expected or completed != expected:
                bad.append((consumer, start_at, received, completed))
    if bad:
        for consumer, start_at, received, completed in bad:
            print("VIOLATION (%s sink, start() while %s):\n"
                  "  sink was called with  %r\n  sink completed for    %r\n  expected              %r"
                  % (consumer, start_at, received, completed, expected))
        return 1
    print("ok: every emitted element was delivered exactly once, in order")
    return 0


if __name__ == "__main__":
    sys.exit(main())
