"""C02: union / zip in front of a consumer -- the consumer gets every element
exactly once and in order, whether it is a Tornado coroutine or a native one,
and whatever the producers do with the awaitable that emit() hands back
(await it now, await it later, or fire-and-forget as most callers do).

No real sleeps: the event loop is only spun with asyncio.sleep(0).
"""
import asyncio
import sys
import warnings

from tornado import gen

from streamz import Stream

warnings.simplefilter("ignore", RuntimeWarning)


async def spin(n=20):
    for _ in range(n):
        await asyncio.sleep(0)


def build(kind, consumer_kind):
    """two producers -> union|zip -> asynchronous consumer"""
    got = []

    if consumer_kind == "tornado":
        @gen.coroutine
        def consume(x):
            yield gen.moment
            got.append(x)
    else:
        async def consume(x):
            await asyncio.sleep(0)
            got.append(x)

    a = Stream(asynchronous=True)
    b = Stream(asynchronous=True)
    node = a.union(b) if kind == "union" else a.zip(b)
    node.sink(consume)
    return a, b, got


async def scenario(kind, consumer_kind, style):
    a, b, got = build(kind, consumer_kind)
    pending = []
    for i in range(4):
        for src in (a, b):
            x = (src is b, i)
            if style == "await":
                await src.emit(x)
            elif style == "forget":          # fire-and-forget
                src.emit(x)
            else:                            # "later": keep it, wait at the end
                pending.append(src.emit(x))
        await spin()
    for p in pending:
        await p
    await spin()
    if kind == "union":
        expected = [(s, i) for i in range(4) for s in (False, True)]
    else:
        expected = [((False, i), (True, i)) for i in range(4)]
    return got, expected


async def main():
    problems = []
    for kind in ("union", "zip"):
        for consumer_kind in ("tornado", "native"):
            for style in ("await", "later", "forget"):
                got, expected = await scenario(kind, consumer_kind, style)
                if got != expected:
                    problems.append(
                        "%s -> %s consumer, producers %s emit(): sink received %r, "
                        "expected %r" % (kind, consumer_kind, style, got, expected))
    return problems


problems = asyncio.run(main())
if problems:
    print("C02 violated (elements lost on their way to a native-coroutine consumer):")
    for p in problems:
        print("  " + p)
    sys.exit(1)
print("ok")
