"""C02: an asynchronous consumer must receive the elements exactly once and in
the order in which its producer emitted them -- for native coroutines just as
for Tornado futures.

Pipelines in which one upstream element makes the producer of the consumer
emit several elements (flatten, or two branches re-joined by union), also
behind a buffer, feeding
  * a native-coroutine sink, and
  * a Tornado-coroutine sink (for comparison).
"""
import asyncio
import sys

from tornado import gen
from streamz import Stream


def consumers():
    got_native, got_tornado = [], []

    async def native(x):
        got_native.append(x)          # "received" = the consumer starts handling x
        await asyncio.sleep(0)

    @gen.coroutine
    def tornado(x):
        got_tornado.append(x)
        yield gen.moment

    return native, got_native, tornado, got_tornado


async def wait_for(cond, turns=200):
    for _ in range(turns):
        if cond():
            return
        await asyncio.sleep(0)


async def main():
    problems = []

    def check(name, got, expected):
        if got != expected:
            problems.append('%s: consumer received %r, producer emitted %r'
                            % (name, got, expected))

    # 1. flatten -> consumer
    native, gn, tornado, gt = consumers()
    source = Stream(asynchronous=True)
    flat = source.flatten()
    flat.sink(native)
    flat.sink(tornado)
    await source.emit([1, 2, 3])
    await source.emit([4, 5])
    check('flatten/native coroutine', gn, [1, 2, 3, 4, 5])
    check('flatten/tornado coroutine', gt, [1, 2, 3, 4, 5])

    # 2. two branches joined by union -> consumer
    native, gn, tornado, gt = consumers()
    source = Stream(asynchronous=True)
    a = source.map(lambda x: ('a', x))
    b = source.map(lambda x: ('b', x))
    u = a.union(b)
    u.sink(native)
    u.sink(tornado)
    for i in range(2):
        await source.emit(i)
    expected = [('a', 0), ('b', 0), ('a', 1), ('b', 1)]
    check('union/native coroutine', gn, expected)
    check('union/tornado coroutine', gt, expected)

    # 3. the same behind a buffer (elements are handed on by the buffer's own task)
    native, gn, tornado, gt = consumers()
    source = Stream(asynchronous=True)
    flat = source.buffer(10).flatten()
    flat.sink(native)
    flat.sink(tornado)
    await source.emit('abc')
    await source.emit('de')
    await wait_for(lambda: len(gn) >= 5 and len(gt) >= 5)
    check('buffer+flatten/native coroutine', gn, list('abcde'))
    check('buffer+flatten/tornado coroutine', gt, list('abcde'))

    if problems:
        print('C02 VIOLATED: asynchronous consumer sees a different order than a synchronous one')
        for p in problems:
            print('  ' + p)
        return 1
    print('ok')
    return 0


if __name__ == '__main__':
    sys.exit(asyncio.run(main()))
