"""C12 — aggregation state can be checkpointed and resumed without changing results."""
import copy

import pandas as pd
from hypothesis import strategies as st

from streamz import Stream
from streamz.dataframe import DataFrame

from harness.runner import Part, Result
from props import dfcommon as dc

ID = "C12"
RULE = ("Batch sequences as in C06/C07/C11 (empty batches, NaN, time index for duration windows) "
        "and EVERY cut point k between batches; aggregation families that can expose their "
        "state: sum/count(start=) (state = value), groupby sum/count(start=), groupby "
        "mean(with_state), rolling(with_state), window(n | value, with_state) x {sum,count,mean,"
        "var,size,value_counts}, windowed groupby(with_state), expanding(with_state), "
        "ewm(with_state).mean(). Oracle: the uninterrupted run emits (state, result) after each "
        "batch; for each k a fresh pipeline (empty example frame, as the repository's "
        "*_with_start_state tests build it) seeded with a deep copy of state_k is fed batches "
        "k+1.. and must produce the results of the uninterrupted run's suffix (C06 comparison). "
        "streamz is compared with streamz, so this holds regardless of findings in C06/C07/C11. "
        "Non-trivial: a cut with 0 < k < last whose state is non-empty, with >= 1 non-empty "
        "batch on each side.")
ASSUMPTIONS = ["resumed rolling, ewm and time-indexed pipelines use the empty frame of the schema as example (a usage "
               "constraint of `example`, not part of C12)", "states are deep-copied at capture"]

FAMS = ["red", "gb", "gbmean", "rolling", "window", "wgb", "expanding", "ewm"]


@st.composite
def case_strategy(draw, tier="quick"):
    fam = draw(st.sampled_from(FAMS))
    timed = fam in ("window", "wgb", "rolling") and draw(st.integers(0, 2)) == 0
    t = draw(dc.table(max_rows=12, time_index=timed, min_rows=2))
    cuts = draw(dc.cuts_for(len(t["rows"]), max_cuts=5))
    op = {"fam": fam, "col": draw(st.sampled_from(["x", "y", "x"])),
          # grouping by a column name or by a streaming series (its history is part of the state)
          "grouper": draw(st.sampled_from(["col", "series", "series_mod"]))}
    if op["grouper"] == "series_mod" and t["gkind"] == "str":
        op["grouper"] = "series"
    if fam == "red":
        op["agg"] = draw(st.sampled_from(["sum", "count"]))
    elif fam == "gb":
        op["agg"] = draw(st.sampled_from(["sum", "count"]))
    elif fam == "gbmean":
        op["agg"] = "mean"
    elif fam == "rolling":
        op["window"] = draw(st.sampled_from(["2s", "3s"])) if timed else draw(st.integers(1, 4))
        op["agg"] = draw(st.sampled_from(["sum", "mean", "max", "count", "var"]))
    elif fam in ("window", "wgb"):
        op["window"] = {"value": draw(st.sampled_from(["1s", "2s", "5s"]))} if timed else \
            {"n": draw(st.integers(1, 5))}
        op["agg"] = draw(st.sampled_from(["sum", "count", "mean", "var", "size"] +
                                         (["value_counts"] if fam == "window" else [])))
        if op["agg"] == "value_counts":
            op["col"] = "y"
        elif fam == "window":
            # element-wise operation on the window before aggregating (a derived window)
            op["derived"] = draw(st.sampled_from([None, None, "scale", "diff"]))
    elif fam == "expanding":
        op["agg"] = draw(st.sampled_from(["sum", "count", "mean", "var", "size"]))
    else:
        op["com"] = draw(st.sampled_from([0.5, 1.0, 3.0]))
        op["agg"] = "mean"
    if fam in ("window", "expanding") and op["agg"] in ("sum", "count", "mean", "var") and \
            not op.get("derived") and draw(st.integers(0, 2)) == 0:
        op["col"] = "xy"      # two columns: the state holds vectors (Series), not scalars
    return {"table": t, "cuts": cuts, "op": op}


def _sel(frame, col):
    return frame[["x", "y"]] if col == "xy" else frame[col]


def build(sdf, op, start, first):
    """-> streaming result emitting (state, result) tuples (or plain values for red/gb)"""
    f, col, a = op["fam"], op["col"], op["agg"]
    if f == "red":
        kw = {} if first else {"start": start}
        return getattr(sdf[col], a)(**kw)
    def key(frame):
        g = op.get("grouper", "col")
        return "g" if g == "col" else (frame.g if g == "series" else frame.g % 2)
    if f == "gb":
        kw = {} if first else {"start": start}
        return getattr(sdf.groupby(key(sdf))[col], a)(**kw)
    if f == "gbmean":
        return sdf.groupby(key(sdf))[col].mean(with_state=True, start=None if first else start)
    if f == "rolling":
        r = sdf.rolling(op["window"], with_state=True, start=() if first else start)[col]
        return getattr(r, a)()
    if f == "window":
        w = sdf.window(with_state=True, start=None if first else start, **op["window"])
        d = op.get("derived")
        if d == "scale":
            w = w[col] * 2
        elif d == "diff":
            w = w.x - w.y
        else:
            w = _sel(w, col)
        return w.size if a == "size" else getattr(w, a)()
    if f == "wgb":
        w = sdf.window(with_state=True, start=None if first else start, **op["window"])
        return getattr(w.groupby(key(w))[col], a)()
    if f == "expanding":
        e = _sel(sdf.expanding(with_state=True, start=None if first else start), col)
        return e.size if a == "size" else getattr(e, a)()
    e = sdf.ewm(com=op["com"], with_state=True, start=None if first else start)[col]
    return e.mean()


def split_out(op, item):
    """-> (state, result) from one emitted item"""
    if op["fam"] in ("red", "gb"):
        return item, item
    return item[0], item[1]


def state_nonempty(state):
    try:
        if isinstance(state, dict):
            return any(len(d) for d in state.get("dfs", []))
        if isinstance(state, tuple):
            return any(state_nonempty(s) for s in state)
        if hasattr(state, "__len__"):
            return len(state) > 0
        return bool(state == state and state != 0)
    except Exception:
        return True


def execute(case):
    t, cuts, op = case["table"], case["cuts"], case["op"]
    bs = dc.batches(t, cuts)
    name = op["fam"] + "." + op["agg"] + (("(" + op["derived"] + ")") if op.get("derived") else "")
    if op["fam"] in ("gb", "gbmean", "wgb") and op.get("grouper", "col") != "col":
        name += "[by-series]"
    if isinstance(op.get("window"), dict):
        name += ":" + ("value" if "value" in op["window"] else "n")
    v = []
    src = Stream()
    sdf = DataFrame(src, example=dc.example_frame(t, "two"))
    try:
        out = build(sdf, op, None, True).stream.sink_to_list()
        states, results, live_states = [], [], []
        for b in bs:
            src.emit(b)
            s, r = split_out(op, out[-1])
            states.append(copy.deepcopy(s))
            live_states.append(s)          # the emitted object itself, not a copy
            results.append(copy.deepcopy(r))
    except Exception as e:
        # the uninterrupted run itself failing is C06/C07/C11's business
        return Result([], nontrivial=False, classes=["uninterrupted-run-raised:" + type(e).__name__])
    nt = False
    # every cut is resumed three times: from a deep copy taken at emission time, from the emitted
    # object itself after the uninterrupted run went on (it must not have been changed behind the
    # user's back), and from that same object a second time (seeding a pipeline must not consume it)
    plan = [(k, "copy") for k in range(len(bs) - 1)] + \
           [(k, "live") for k in range(len(bs) - 1)] + [(k, "live-again") for k in range(len(bs) - 1)]
    for k, how in plan:
        src2 = Stream()
        # the example frame only describes the schema: rows in it must not leak into a seeded state
        # (not for rolling / time-indexed tables: there the example's own index labels must fit
        # the seeded history, the usage constraint of ASSUMPTIONS)
        rows_ok = op["fam"] not in ("rolling", "ewm") and "ts" not in t
        sdf2 = DataFrame(src2, example=dc.example_frame(
            t, "two" if rows_ok and (k + len(how)) % 2 else "empty"))
        try:
            seed_state = copy.deepcopy(states[k]) if how == "copy" else live_states[k]
            out2 = build(sdf2, op, seed_state, False).stream.sink_to_list()
            got = []
            for b in bs[k + 1:]:
                src2.emit(b)
                got.append(split_out(op, out2[-1])[1])
        except Exception as e:
            v.append(("%s:%s:resume-raises-%s" % (ID, name, type(e).__name__),
                      "split %s rows %s: resuming after batch %d raised %r" % (
                          [len(b) for b in bs], t["rows"], k, e)))
            break
        bad = None
        for j, (g, e) in enumerate(zip(got, results[k + 1:])):
            r = dc.same(g, e)
            if r:
                bad = (j, r, g, e)
                break
        if bad:
            j, r, g, e = bad
            what = {"copy": "resumed-result-differs",
                    "live": "emitted-state-changed-after-emission",
                    "live-again": "seeding-a-pipeline-consumed-the-state"}[how]
            v.append(("%s:%s:%s" % (ID, name, what),
                      "split %s rows %s%s: resumed after batch %d, result for batch %d is %s, "
                      "uninterrupted run gave %s: %s" % (
                          [len(b) for b in bs], t["rows"], (" ts %s" % t["ts"]) if "ts" in t else "",
                          k, k + 1 + j, _short(g), _short(e), r)))
            break
        if 0 <= k < len(bs) - 1 and state_nonempty(states[k]) and \
                any(len(b) for b in bs[:k + 1]) and any(len(b) for b in bs[k + 1:]):
            nt = True
    classes = ["family:" + name]
    if any(len(b) == 0 for b in bs):
        classes.append("empty-batch")
    return Result(v, nontrivial=nt, classes=classes)


def _short(x):
    if isinstance(x, (pd.Series, pd.DataFrame)):
        return x.to_dict()
    return x


PARTS = [Part("cuts", case_strategy, execute, quick=900, thorough=3000)]
