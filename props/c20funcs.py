"""Importable task functions for C20 (executed on Dask workers and locally)."""
import time


def _jitter(x):
    # deterministic per value, 0..16 ms: tasks finish out of submission order on 4 threads
    try:
        k = int(x if not isinstance(x, (tuple, list)) else sum(_flat(x)))
    except Exception:
        k = 0
    time.sleep(((k * 7) % 5) * 0.004)


def _flat(x):
    for i in x:
        if isinstance(i, (tuple, list)):
            yield from _flat(i)
        else:
            yield i


def _kw(kw):
    return sum(v for v in kw.values() if isinstance(v, (int, float)))


def inc(x, **kw):
    _jitter(x)
    return x + 1 + _kw(kw)


def dbl(x, **kw):
    _jitter(x)
    return x * 2 + _kw(kw)


def tsum(x, **kw):
    _jitter(x)
    return sum(_flat(x)) + _kw(kw)


def add(a, b, **kw):
    _jitter(a)
    if isinstance(a, (tuple, list)):        # pairs of tuples (partition of partitions): join them
        return tuple(a) + tuple(b) + ((_kw(kw),) if kw else ())
    return a + b + _kw(kw)


def acc_add(s, x, **kw):
    _jitter(x)
    return s + (tsum(x) if isinstance(x, (tuple, list)) else x) + _kw(kw)


def acc_rs(s, x, **kw):
    _jitter(x)
    v = (tsum(x) if isinstance(x, (tuple, list)) else x) + _kw(kw)
    return s + v, s * 2 + v


def acc_rs_list(s, x, **kw):
    """returns_state=True with the (state, result) pair handed back as a list"""
    _jitter(x)
    v = (tsum(x) if isinstance(x, (tuple, list)) else x) + _kw(kw)
    return [s + v, s * 2 + v]


def twin_a(x, **kw):
    _jitter(x)
    return x * 2 + _kw(kw)


def twin_b(x, **kw):
    _jitter(x)
    return x + 100 + _kw(kw)


# two different functions that go by the same name (like two lambdas)
TWINS = {"twin_a": twin_a, "twin_b": twin_b}
twin_a.__name__ = twin_b.__name__ = "twin"
twin_a.__qualname__ = twin_b.__qualname__ = "twin"

FUN = {f.__name__: f for f in (inc, dbl, tsum, add, acc_add, acc_rs, acc_rs_list)}
FUN.update(TWINS)
