"""C11 — rolling / cumulative / expanding / ewm results do not depend on batching."""
import pandas as pd
from hypothesis import strategies as st

from streamz import Stream
from streamz.dataframe import DataFrame

from harness.runner import Part, Result, fuzz_part as runner_fuzz_part
from props import dfcommon as dc

ID = "C11"
RULE = ("Tables as in C06 (NaN on/off; time-indexed for time-based rolling) and every composition "
        "of their rows into consecutive batches (generated cut multisets: empty batches, batches "
        "shorter than the window); operation from rolling(w in 1..5 | '2s' | '3s').{sum,mean,min,"
        "max,median,std,var,count,quantile(.5)}, cumsum/cumprod/cummin/cummax on a column or "
        "frame, expanding().{sum,mean,count,var,std,size}, ewm(com|span|alpha|halflife).mean(). "
        "Oracle (reference + metamorphic): pd.concat(emitted) equals the same pandas call on "
        "pd.concat(batches) for rolling and cumulative operations; expanding and ewm emit one "
        "value per batch, equal to pandas on the prefix (ewm: .ewm(...).mean().iloc[-1]); and two "
        "different generated splits of the same table give the same overall result. Non-trivial: "
        ">= 3 batches, one of them empty or shorter than the window.")
ASSUMPTIONS = ["pandas defaults exactly as streamz calls them (Rolling ignores its min_periods "
               "argument: reference is pandas.rolling(window))", "comparison rules of C06"]

ROLL = ["sum", "mean", "min", "max", "median", "std", "var", "count", "quantile"]
CUM = ["cumsum", "cumprod", "cummin", "cummax"]
EXP = ["sum", "mean", "count", "var", "std", "size"]


@st.composite
def case_strategy(draw, tier="quick"):
    fam = draw(st.sampled_from(["rolling", "rolling", "cum", "expanding", "ewm"]))
    timed = fam == "rolling" and draw(st.integers(0, 2)) == 0
    # the other families over a time index as well: timestamps repeat, also across batch borders
    stamped = timed or (fam != "rolling" and draw(st.integers(0, 3)) == 0)
    t = draw(dc.table(max_rows=12, time_index=stamped, min_rows=2))
    n = len(t["rows"])
    cuts = draw(dc.cuts_for(n))
    cuts2 = draw(dc.cuts_for(n))
    op = {"fam": fam, "col": draw(st.sampled_from(["x", "y", "x", "xy"]))}
    if fam == "rolling":
        op["window"] = draw(st.sampled_from(["2s", "3s"])) if timed else draw(st.integers(1, 5))
        op["agg"] = draw(st.sampled_from(ROLL))
    elif fam == "cum":
        op["agg"] = draw(st.sampled_from(CUM))
    elif fam == "expanding":
        op["agg"] = draw(st.sampled_from(EXP))
        if op["agg"] in ("var", "std") and op["col"] == "xy":
            op["col"] = "x"
        if op["agg"] in ("var", "std"):
            op["ddof"] = draw(st.sampled_from([1, 1, 0, 2]))
    else:
        k = draw(st.sampled_from(["com", "span", "alpha", "halflife"]))
        op["ewm"] = {k: draw(st.sampled_from({"com": [0.5, 1.0, 3.0], "span": [1.0, 2.0, 5.0],
                                               "alpha": [0.25, 0.5, 1.0],
                                               "halflife": [1.0, 2.0]}[k]))}
        op["agg"] = "mean"
    return {"table": t, "cuts": cuts, "cuts2": cuts2, "op": op}


def sel(df, col):
    return df[["x", "y"]] if col == "xy" else df[col]


def stream_op(sdf, op):
    f = op["fam"]
    if f == "rolling":
        r = sel(sdf.rolling(op["window"]), op["col"])
        if op["agg"] == "quantile":
            return r.quantile(0.5)
        return getattr(r, op["agg"])()
    if f == "cum":
        return getattr(sel(sdf, op["col"]), op["agg"])()
    if f == "expanding":
        e = sel(sdf.expanding(), op["col"])
        kw = {"ddof": op["ddof"]} if "ddof" in op else {}
        return e.size if op["agg"] == "size" else getattr(e, op["agg"])(**kw)
    return sel(sdf.ewm(**op["ewm"]), op["col"]).mean()


def pandas_full(df, op):
    f = op["fam"]
    s = sel(df, op["col"])
    if f == "rolling":
        r = s.rolling(op["window"])
        return r.quantile(0.5) if op["agg"] == "quantile" else getattr(r, op["agg"])()
    if f == "cum":
        return getattr(s, op["agg"])()
    raise AssertionError


def pandas_prefix(df, op):
    s = sel(df, op["col"])
    if op["fam"] == "expanding":
        kw = {"ddof": op["ddof"]} if "ddof" in op else {}
        return s.size if op["agg"] == "size" else getattr(s, op["agg"])(**kw)
    m = s.ewm(**op["ewm"]).mean()
    return m.iloc[-1]


def run_split(t, cuts, op):
    bs = dc.batches(t, cuts)
    src = Stream()
    sdf = DataFrame(src, example=dc.example_frame(t, "two"))
    out = stream_op(sdf, op).stream.sink_to_list()
    for b in bs:
        src.emit(b)
    return bs, out


def execute(case):
    t, op = case["table"], case["op"]
    name = op["fam"] + "." + op["agg"] + ((":time" if isinstance(op.get("window"), str) else ":n")
                                          if op["fam"] == "rolling" else "")
    v = []
    results = []
    for cuts in (case["cuts"], case["cuts2"]):
        try:
            bs, out = run_split(t, cuts, op)
        except Exception as e:
            from harness.runner import from_repo
            if not from_repo(e.__traceback__) and "pandas" not in repr(type(e).__module__):
                raise
            sizes = [len(b) for b in dc.batches(t, cuts)]
            what = "raises-%s" % type(e).__name__
            if sizes and sizes[0] == 0:
                what += "-on-empty-first-batch"
            v.append(("%s:%s:%s" % (ID, name, what), "split %s rows %s: %r" % (sizes, t["rows"], e)))
            break
        cat = pd.concat(bs)
        sizes = [len(b) for b in bs]
        if len(out) != len(bs):
            v.append(("%s:%s:emission-count" % (ID, name), "%d batches, %d emissions" % (
                len(bs), len(out))))
            break
        bad = [o for o in out if not isinstance(o, (pd.Series, pd.DataFrame))]
        if bad and op["fam"] in ("rolling", "cum"):
            v.append(("%s:%s:emits-%s-instead-of-frame" % (ID, name, type(bad[0]).__name__),
                      "split %s rows %s: emitted %r" % (sizes, t["rows"], _short(bad[0]))))
            break
        if op["fam"] in ("rolling", "cum"):
            got = pd.concat(out) if out else None
            exp = pandas_full(cat, op)
            r = dc.same(got, exp)
            if r:
                hasnan = any(row[0] is None for row in t["rows"])
                v.append(("%s:%s:%s" % (ID, name, "differs-with-nan" if hasnan else "differs"),
                          "split %s rows %s: concatenated result %s, pandas in one pass %s: %s" % (
                              sizes, t["rows"], _short(got), _short(exp), r)))
                break
            results.append(got)
        else:
            vals = []
            for k in range(len(bs)):
                prefix = pd.concat(bs[:k + 1])
                if not len(prefix):
                    continue
                exp = pandas_prefix(prefix, op)
                got_k = out[k]
                if op["fam"] == "ewm":
                    # ewm().mean() emits a one-row frame/series holding the current mean (the
                    # repository test concatenates them): compare that row
                    if not hasattr(got_k, "iloc") or len(got_k) != 1:
                        r = "emitted %r instead of one row" % (_short(got_k),)
                    else:
                        r = dc.same(got_k.iloc[0], exp)
                else:
                    r = dc.same(got_k, exp)
                if r:
                    hasnan = bool(sel(prefix, op["col"]).isna().to_numpy().any())
                    empty_first = sizes[0] == 0
                    what = "with-nan" if hasnan else \
                        ("after-empty-first-batch" if empty_first else "differs")
                    v.append(("%s:%s:%s" % (ID, name, what),
                              "split %s rows %s: after batch %d streamz %s, pandas on the prefix "
                              "%s: %s" % (sizes, t["rows"], k, _short(out[k]), _short(exp), r)))
                    break
            if v:
                break
            results.append(out[-1] if out else None)
    if not v and len(results) == 2 and op["fam"] in ("rolling", "cum"):
        r = dc.same(results[0], results[1])
        if r:
            v.append(("%s:%s:depends-on-split" % (ID, name), "splits %s and %s: %s" % (
                case["cuts"], case["cuts2"], r)))
    sizes = [len(b) for b in dc.batches(t, case["cuts"])]
    w = op.get("window") if isinstance(op.get("window"), int) else 2
    nt = len(sizes) >= 3 and any(s == 0 or s < w for s in sizes)
    classes = ["op:" + name]
    if any(s == 0 for s in sizes):
        classes.append("empty-batch")
    if sizes and sizes[0] == 0:
        classes.append("empty-first-batch")
    if any(row[0] is None for row in t["rows"]):
        classes.append("nan")
    return Result(v, nontrivial=nt, classes=classes)


def _short(x):
    if isinstance(x, (pd.Series, pd.DataFrame)):
        return x.to_dict()
    return x


def large_cases(tier):
    """thorough tier only: streams far longer than the generated tables (size-dependent logic,
    e.g. history caps, cannot show on 12 rows)"""
    if tier != "thorough":
        return
    for fam, agg in (("expanding", "sum"), ("expanding", "mean"), ("expanding", "count"),
                     ("cum", "cumsum")):
        yield {"large": True, "fam": fam, "agg": agg, "rows": 1_300_000, "batches": 13}


def execute_large(case):
    import numpy as np
    n, nb = case["rows"], case["batches"]
    x = (np.arange(n) % 97 - 48) / 4.0
    df = pd.DataFrame({"x": x, "y": np.arange(n) % 5})
    size = n // nb
    bs = [df.iloc[i * size:(i + 1) * size] for i in range(nb)]
    op = {"fam": case["fam"], "agg": case["agg"], "col": "x"}
    if case["fam"] == "ewm":
        op["ewm"] = {"com": 3.0}
    src = Stream()
    sdf = DataFrame(src, example=df.iloc[:2])
    out = stream_op(sdf, op).stream.sink_to_list()
    v = []
    for k, b in enumerate(bs):
        src.emit(b)
        if k in (0, nb // 2, nb - 1):
            prefix = df.iloc[:(k + 1) * size]
            if case["fam"] == "cum":
                r = dc.same(out[k].iloc[-1], pandas_full(prefix, op).iloc[-1])
            elif case["fam"] == "ewm":
                r = dc.same(out[k].iloc[0], pandas_prefix(prefix, op))
            else:
                r = dc.same(out[k], pandas_prefix(prefix, op))
            if r:
                v.append(("%s:%s.%s:differs-on-a-long-stream" % (ID, case["fam"], case["agg"]),
                          "after %d rows in %d batches: %s" % ((k + 1) * size, k + 1, r)))
                break
    return Result(v, nontrivial=True, classes=["long-stream"])


PARTS = [Part("splits", case_strategy, execute, quick=800, thorough=4000),
         Part("long-streams", None, execute_large, quick=0, thorough=0, shards=1,
              exhaustive=large_cases, cpu_limit=None),
         Part("coverage-guided:splits", None, execute, quick=0, thorough=0, shards=1,
              exhaustive=runner_fuzz_part(ID, "splits"))]
