"""C03 — back-pressure: emit waits for downstream, in-flight data is bounded, no deadlock."""
import threading
import time as _time

from hypothesis import strategies as st

from harness import specs, schedule, local
from harness.elements import E, Log, Consumer, prov
from harness.runner import Part, Result
from props import c02

ID = "C03"
RULE = ("Same generated pipelines + schedules as C02 (plus slice), on the harness-owned loop. "
        "Oracles over the event log: (a) no early completion: every consumer call reached "
        "inside emit k's synchronous call, and every consumer call carrying provenance k that is "
        "reached before emit k completes on a path without buffering nodes (rate_limit defers "
        "but does not buffer), has finished before emit k's awaitable completes; (b) at every log "
        "position, accepted-but-not-handed-on <= n for buffer(n), each input of zip(maxsize=n), "
        "map_async(parallelism=n), and concurrently running map_async jobs <= n; (c) after the "
        "finish phase (all consumers complete, virtual time runs on) no emit is pending unless a "
        "starved zip input blocks it. Threaded part: real background loop, blocking emit in a "
        "worker thread; the call must not return before the consumer future is resolved (order in "
        "a lock-protected log). Part fanout: one emit reaches the consumers several times (partition / "
        "sliding_window -> flatten, or several branches), completions in any order, same oracles. "
        "Non-trivial: some emit stayed pending across >= 1 action and "
        "later completed, or a bound was reached (= n).")
ASSUMPTIONS = c02.ASSUMPTIONS + ["'accepted' = the emit's awaitable completed (zip documents no "
                                 "other definition)"]

KINDS = c02.KINDS + ["slice", "zip_latest", "combine_latest", "partition_unique", "collect"]
NONBUF = set(specs.SYNC_KINDS) | {"rate_limit", "entry"}
ONE2ONE = {"entry", "map", "filter", "pluck", "starmap", "union", "unique", "slice", "accumulate"}


def ancestors(spec, i):
    seen, stack = set(), [i]
    while stack:
        j = stack.pop()
        for u in spec["nodes"][j]["u"]:
            if u not in seen:
                seen.add(u)
                stack.append(u)
    return seen


def oracle(spec, run, pid=ID):
    v = []
    ev = run.log.events
    nodes = spec["nodes"]
    # ---- (a) no early completion ------------------------------------------------------------
    cf_at = {}
    for idx, e in enumerate(ev):
        if e[0] == "cf":
            cf_at[(e[1], e[2])] = idx
    done_at = {e[1]: idx for idx, e in enumerate(ev) if e[0] == "emitdone"}
    # (a2) only where every call carries the provenance of exactly one emission: 1:1 nodes and
    # rate_limit (which defers by sleeping but is not a buffering node).  Behind a batching node
    # an element legitimately re-appears in tuples triggered by *later* emits.
    direct_sink = {i: all(nodes[a]["k"] in ONE2ONE | {"rate_limit"} for a in ancestors(spec, i))
                   for i, nd in enumerate(nodes) if nd["k"] == "sink"}
    for idx, e in enumerate(ev):
        if e[0] != "cc":
            continue
        cid, inv, x, ctx = e[1], e[2], e[3], e[5]
        ks = set()
        if ctx is not None:
            ks.add(ctx)
        if direct_sink.get(cid):
            ks |= {k for k in prov(x) if k in done_at and idx < done_at[k] and len(prov(x)) == 1}
        for k in ks:
            if k in done_at and cf_at.get((cid, inv), 10 ** 9) > done_at[k]:
                path = sorted({nodes[a]["k"] for a in ancestors(spec, cid)} - {"entry"})
                culprit = [p for p in path if p in ("slice",)] or path or ["sink"]
                v.append(("%s:early-completion:via-%s" % (pid, "+".join(culprit[:3])),
                          "emit %d completed while consumer %d invocation %d was unfinished"
                          % (k, cid, inv)))
                break
    # ---- (b) bounds -------------------------------------------------------------------------
    for i, nd in enumerate(nodes):
        k = nd["k"]
        if k not in ("buffer", "zip", "map_async"):
            continue
        if not all(nodes[a]["k"] in ONE2ONE for a in ancestors(spec, i)):
            continue
        bound = {"buffer": nd["p"].get("n"), "zip": nd["p"].get("maxsize"),
                 "map_async": nd["p"].get("par")}[k]
        ups = nd["u"] if k == "zip" else [None]
        for up in ups:
            accepted = handed = 0
            waiting = {}  # emission k -> count of arrivals not yet accepted
            worst = 0
            for e in ev:
                if e[0] == "arr" and e[1] == i and (up is None or e[2] == up):
                    for kk in prov(e[3]):
                        waiting[kk] = waiting.get(kk, 0) + 1
                elif e[0] == "emitdone" and e[1] in waiting:
                    accepted += waiting.pop(e[1])
                elif e[0] == "rec" and e[1] == i:
                    handed += 1
                elif e[0] == "jx" and e[1] == i:
                    handed += 1   # a failed job is disposed of, not held
                worst = max(worst, accepted - handed)
            if worst == bound:
                run.bound_reached = True
            if worst > bound:
                v.append(("%s:%s:accepted-exceeds-bound-by-%s" % (pid, k, "1" if worst - bound == 1 else "2+"),
                          "node %d %s: %d accepted but not handed on" % (i, nd["p"], worst)))
    # map_async hands one result at a time to what is below it and waits for it ("awaits
    # downstream before taking the next element"): with only consumers directly below, accepted
    # elements whose consumers have not finished are the <= par queued jobs plus the one being
    # delivered (the "+1" of the known finding included)
    for i, nd in enumerate(nodes):
        if nd["k"] != "map_async" or not all(nodes[a]["k"] in ONE2ONE for a in ancestors(spec, i)):
            continue
        kids = [c for c, n2 in enumerate(nodes) if i in n2["u"]]
        if not kids or any(nodes[c]["k"] != "sink" for c in kids) or any(e[0] in ("jx", "cx", "fx")
                                                                          for e in ev):
            continue
        waiting, accepted, worst = {}, 0, 0
        fin = {c: 0 for c in kids}
        for e in ev:
            if e[0] == "arr" and e[1] == i:
                for kk in prov(e[3]):
                    waiting[kk] = waiting.get(kk, 0) + 1
            elif e[0] == "emitdone" and e[1] in waiting:
                accepted += waiting.pop(e[1])
            elif e[0] == "cf" and e[1] in fin:
                fin[e[1]] += 1
            worst = max(worst, accepted - min(fin.values()))
        if worst > nd["p"]["par"] + 1:
            v.append(("%s:map_async:does-not-wait-for-its-consumers" % pid,
                      "node %d parallelism=%d: %d elements accepted whose consumers have not "
                      "finished" % (i, nd["p"]["par"], worst)))
    for i, j in run.built.jobs.items():
        par = nodes[i]["p"]["par"]
        if j.max_running == par:
            run.bound_reached = True
        if j.max_running > par:
            v.append(("%s:map_async:concurrency-exceeds-parallelism-by-%s" % (
                pid, "1" if j.max_running - par == 1 else "2+"),
                "node %d parallelism=%d ran %d jobs concurrently" % (i, par, j.max_running)))
    # ---- (c) no deadlock --------------------------------------------------------------------
    # a pending emit is legitimate only if a zip below its entry really has an over-full input
    # (then another input of that zip is starved and nothing can free the producer)
    ents = specs.entry_ids(spec)
    overfull = set()
    for i, nd in enumerate(nodes):
        if nd["k"] == "zip":
            tuples = sum(1 for e in ev if e[0] == "rec" and e[1] == i)
            for up in nd["u"]:
                arrived = sum(1 for e in ev if e[0] == "arr" and e[1] == i and e[2] == up)
                if arrived - tuples > nd["p"]["maxsize"]:
                    overfull.add(i)

    def excused(entry_node):
        below = set()
        stack = [entry_node]
        while stack:
            j = stack.pop()
            for c in range(len(nodes)):
                if j in nodes[c]["u"] and c not in below:
                    below.add(c)
                    stack.append(c)
        return bool(below & overfull)

    for r in run.emits:
        if not r["done"] and not excused(ents[r["entry"]]):
            kinds = sorted({nd["k"] for nd in nodes} - {"entry", "sink"})
            v.append(("%s:deadlock" % pid,
                      "emit %d still pending after the finish phase" % r["k"]))
            break
    for e, q in run.pending_producers.items():
        if q and not excused(ents[e]):
            v.append(("%s:deadlock:producer-never-resumed" % pid, "producer %d left %s" % (e, q)))
    return v


def execute(case):
    spec = case["spec"]
    cm = {int(k): m for k, m in case["cmodes"].items()}
    jf = {int(k): set(v_) for k, v_ in case.get("jobfaults", {}).items()}
    run = schedule.execute(case, consumer_modes=cm, faults=jf)
    run.bound_reached = False
    v = oracle(spec, run)
    ev = run.log.events
    # an emit stayed pending across >= 1 action and later completed
    qs = [i for i, e in enumerate(ev) if e[0] == "q"]
    waited = False
    ret = {e[1]: i for i, e in enumerate(ev) if e[0] == "emitret"}
    don = {e[1]: i for i, e in enumerate(ev) if e[0] == "emitdone"}
    for k, i0 in ret.items():
        if k in don and any(i0 < q < don[k] for q in qs):
            waited = True
            break
    classes = ["kind:" + k for k in {nd["k"] for nd in spec["nodes"]}]
    if waited:
        classes.append("emit-waited-then-completed")
    if run.bound_reached:
        classes.append("bound-reached")
    return Result(v, nontrivial=waited or run.bound_reached, classes=classes)


@st.composite
def case_strategy(draw, tier="quick"):
    case = draw(c02.case_strategy(tier, kinds=KINDS, first=c02.ASYNC + ["slice", "map", "zip",
                                                                         "zip_latest"]))
    # now and then a mapped coroutine function fails (at the call or inside the job): the
    # element's emit carries the exception; everything after it must still complete
    # (only where the failure travels straight back to the emitter: below another asynchronous
    # node a failing downstream is that node's business and not covered by C03)
    nodes_ = case["spec"]["nodes"]
    jobs = [i for i, nd in enumerate(nodes_) if nd["k"] == "map_async" and
            all(nodes_[a]["k"] in specs.SYNC_KINDS + ["entry"] for a in ancestors(case["spec"], i))]
    if jobs and draw(st.integers(0, 2)) == 0:
        case["jobfaults"] = {str(draw(st.sampled_from(jobs))): sorted(draw(
            st.sets(st.integers(0, 5), min_size=1, max_size=2)))}
    return case


@st.composite
def join_case(draw, tier="quick"):
    """focused shape: two entries -> zip | zip_latest | combine_latest -> [map] -> asynchronous
    consumer; bursts on one entry before the other delivers, completions in any order"""
    kind = draw(st.sampled_from(["zip", "zip_latest", "zip_latest", "combine_latest"]))
    nodes = [{"k": "entry", "u": [], "p": {}, "t": "E"}, {"k": "entry", "u": [], "p": {}, "t": "E"}]
    p = {}
    if kind == "zip":
        p = {"maxsize": draw(st.sampled_from([1, 2, 10])), "args": [{"n": 0}, {"n": 1}]}
    elif kind == "combine_latest":
        p = {"emit_on": None}
    nodes.append({"k": kind, "u": [0, 1], "p": p, "t": ["H", ["E", "E"]]})
    if draw(st.booleans()):
        nodes.append({"k": "map", "u": [2], "p": {"f": "size"}, "t": "E"})
    nodes.append({"k": "sink", "u": [len(nodes) - 1], "p": {}, "t": None})
    spec = {"nodes": nodes, "fb": None}
    emit = st.tuples(st.sampled_from(["emit", "emit", "pemit"]), st.integers(0, 1), st.integers(0, 5))
    burst = st.tuples(st.integers(0, 1), st.integers(2, 4)).map(
        lambda t: [["emit", t[0], k] for k in range(t[1])])
    fin = st.tuples(st.just("fin"), st.just(0), st.integers(0, 3))
    steps = draw(st.lists(st.one_of(emit.map(lambda e: [list(e)]), burst, burst,
                                    fin.map(lambda f: [list(f)]), fin.map(lambda f: [list(f)])),
                          min_size=3, max_size=14))
    return {"spec": spec, "cmodes": {str(len(nodes) - 1): draw(st.sampled_from(["fut", "coro", "fut"]))},
            "actions": [a for stp in steps for a in stp][:50]}



@st.composite
def fanout_case(draw, tier="quick"):
    """focused shape: one emit reaches the asynchronous consumer several times - entry ->
    partition(n) | sliding_window(n) -> flatten -> [map] -> consumer, or entry -> several
    branches -> consumers; completions in any order (the first call's consumer may well finish
    last): the emit has to wait for *all* of them"""
    nodes = [{"k": "entry", "u": [], "p": {}, "t": "E"}]
    cm = {}
    if draw(st.integers(0, 3)) > 0:
        n = draw(st.integers(2, 4))
        if draw(st.booleans()):
            nodes.append({"k": "partition", "u": [0], "p": {"n": n, "key": None},
                          "t": ["H", ["E"] * n]})
        else:
            partial = draw(st.booleans())
            nodes.append({"k": "sliding_window", "u": [0], "p": {"n": n, "partial": partial},
                          "t": ["L", "E"] if partial else ["H", ["E"] * n]})
        nodes.append({"k": "flatten", "u": [1], "p": {}, "t": "E"})
        if draw(st.booleans()):
            nodes.append({"k": "map", "u": [2], "p": {"f": "inc"}, "t": "E"})
        tails = [len(nodes) - 1] * draw(st.sampled_from([1, 1, 2]))
    else:
        for _ in range(draw(st.integers(2, 4))):
            if draw(st.booleans()):
                nodes.append({"k": "map", "u": [0], "p": {"f": "inc"}, "t": "E"})
        tails = [i for i in range(1, len(nodes))] + [0] * draw(st.integers(1, 2))
    for t in tails:
        nodes.append({"k": "sink", "u": [t], "p": {}, "t": None})
        cm[str(len(nodes) - 1)] = draw(st.sampled_from(["fut", "coro", "fut"]))
    spec = {"nodes": nodes, "fb": None}
    emit = st.tuples(st.sampled_from(["emit", "emit", "pemit"]), st.just(0), st.integers(0, 5))
    fin = st.tuples(st.just("fin"), st.integers(0, 2), st.integers(0, 3))
    late = st.tuples(st.just("fin"), st.integers(0, 2), st.integers(1, 3))   # not the oldest
    steps = draw(st.lists(st.one_of(emit, emit, fin, late, late), min_size=4, max_size=24))
    return {"spec": spec, "cmodes": cm, "actions": [list(a) for a in steps]}


# ---- threaded variant ---------------------------------------------------------------------
@st.composite
def threaded_case(draw, tier="quick"):
    chain = draw(st.lists(st.sampled_from(["map", "filter_true", "slice_all", "rate_limit0",
                                           "partition1", "sliding1", "union"]), max_size=3))
    n = draw(st.integers(1, 3))
    # bridge: a first graph forwards into the tested one from `bridge` branches with the usual
    # sink(other.emit) idiom (nested emits on the loop thread)
    return {"chain": chain, "n": n, "grace": 0.03, "bridge": draw(st.sampled_from([0, 0, 1, 2]))}


def execute_threaded(case):
    """Real background-thread loop; blocking emit from a worker thread."""
    from streamz import Stream
    from streamz.core import identity
    lock = threading.Lock()
    events = []

    def add(*e):
        with lock:
            events.append(e)

    futs = []

    def consumer(x):
        import asyncio
        f = asyncio.get_event_loop().create_future()
        add("cs", x)
        futs.append(f)
        return f

    s = Stream(asynchronous=False)
    node = s
    keep = [s]
    for c in case["chain"]:
        if c == "map":
            node = node.map(identity)
        elif c == "filter_true":
            node = node.filter(lambda x: True)
        elif c == "slice_all":
            node = node.slice(0, None, 1)
        elif c == "rate_limit0":
            node = node.rate_limit(0.001)
        elif c == "partition1":
            node = node.partition(1).pluck(0)
        elif c == "sliding1":
            node = node.sliding_window(1).pluck(0)
        elif c == "union":
            node = node.union()
        keep.append(node)
    sk = node.sink(consumer)
    keep.append(sk)
    entry = s
    per_emit = 1
    bridges = []
    if case.get("bridge"):
        entry = Stream(asynchronous=False)
        per_emit = case["bridge"]
        for b in range(case["bridge"]):
            br = entry.map(identity) if b % 2 == 0 else entry
            bridges.append(br.sink(s.emit))
        keep.append(entry)
    loop = s.loop
    v = []
    for k in range(case["n"]):
        def worker(k=k):
            add("call", k)
            try:
                entry.emit(k)
            finally:
                add("ret", k)
        t = threading.Thread(target=worker, daemon=True)
        t.start()
        want = (k + 1) * per_emit
        done = k * per_emit
        t0 = _time.time()
        stuck = False
        # consumers are reached one after the other (each branch forwards in turn): finish each
        # as it appears, after giving an early return the chance to show
        while done < want:
            while _time.time() - t0 < 5 and len(futs) <= done and t.is_alive():
                _time.sleep(0.001)
            if len(futs) <= done:
                stuck = True
                break
            _time.sleep(case["grace"])
            add("cf", k, done)
            loop.add_callback(futs[done].set_result, None)
            done += 1
            t0 = _time.time()
        if stuck:
            for sk_ in [sk] + bridges:
                sk_.destroy()
            what = "deadlock" if t.is_alive() else "consumer-not-reached"
            return Result([("C03:threaded:%s" % what, "emit %d: %d of %d consumer calls happened, "
                            "emit thread alive=%s: %s" % (k, len(futs), want, t.is_alive(), case))],
                          nontrivial=True, abort=t.is_alive())
        t.join(10)
        if t.is_alive():
            v.append(("C03:threaded:deadlock", "blocking emit never returned: %s" % case))
            break
    for sk_ in [sk] + bridges:
        sk_.destroy()
    with lock:
        order = [e for e in events if e[0] in ("ret", "cf")]
    for k in range(case["n"]):
        rets = [i for i, e in enumerate(order) if e == ("ret", k)]
        cfs = [i for i, e in enumerate(order) if e[0] == "cf" and e[1] == k]
        if rets and cfs and rets[0] < max(cfs):
            culprit = [c for c in case["chain"] if c.startswith("slice")] or case["chain"] or ["sink"]
            v.append(("C03:threaded:early-return:via-%s" % "+".join(sorted(set(culprit))),
                      "blocking emit(%d) returned before the consumer finished" % k))
            break
    return Result(v, nontrivial=True, classes=["threaded", "bridge:%d" % case.get("bridge", 0)] +
                  ["chain:" + c for c in case["chain"]],
                  abort=any(s_ == "C03:threaded:deadlock" for s_, _ in v))


PARTS = [Part("schedules", case_strategy, execute, quick=1600, thorough=8000),
         Part("joins", join_case, execute, quick=600, thorough=4000),
         Part("fanout", fanout_case, execute, quick=600, thorough=4000),
         Part("threaded", threaded_case, execute_threaded, quick=32, thorough=80, shards=4,
              shrink_quick=False, quick_shards=4, quick_factor=1)]
