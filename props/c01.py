"""C01 — pipelines compute the dataflow semantics: no loss, duplication, reordering."""
from hypothesis import strategies as st

from harness import specs
from harness.elements import E, Log, canon, show, mk
from harness.model import ModelGraph
from harness.runner import Part, Result, fuzz_part as runner_fuzz_part
from harness.vloop import install

ID = "C01"
RULE = ("Hypothesis generates a typed pipeline spec (1-3 entries, 1-8 nodes from the synchronous "
        "catalogue with boundary parameters, fan-out/fan-in, optional unique-guarded feedback "
        "edge) plus an interleaved list of (entry, value) emissions (a plain None among the tagged elements in "
        "a third of the cases) and collect.flush() events; odd-numbered nodes are built through the "
        "aliases remove/scan/concat, map and starmap may carry extra positional and keyword arguments; "
        "the real graph and the reference model run the same events; oracle = the global "
        "recorder log (every node's emissions and every sink delivery, in order) is identical. "
        "Non-trivial: the graph has a fan-out, a fan-in or a stateful node AND some recorder "
        "logged >= 2 values. Distinct = distinct SHA-1 of (spec, events, mode).")
ASSUMPTIONS = ["user functions are the closed catalogue in harness/elements.py",
               "node parameters outside the documented ones (negative n, ...) are not generated",
               "reference model harness/model.py encodes the docstrings (DESIGN Appendix A)"]

STATEFUL = {"accumulate", "slice", "partition", "partition_unique", "sliding_window", "unique",
            "collect", "zip", "combine_latest", "zip_latest"}


@st.composite
def case_strategy(draw, tier="quick"):
    spec = draw(specs.pipeline_spec(kinds=specs.SYNC_KINDS, max_nodes=8))
    ents = specs.entry_ids(spec)
    cols = specs.collect_ids(spec)
    # value code 6 = a plain None among the elements (in a third of the cases)
    top = 6 if draw(st.integers(0, 2)) == 0 else 5
    ev = st.tuples(st.just("e"), st.integers(0, len(ents) - 1), st.integers(0, top))
    if cols:
        ev = st.one_of(ev, ev, ev, st.tuples(st.just("f"), st.sampled_from(cols)))
    events = draw(st.lists(ev, min_size=1, max_size=25))
    mode = "async" if specs.needs_loop(spec) else draw(st.sampled_from(["sync", "async"]))
    return {"spec": spec, "events": [list(e) for e in events], "mode": mode}


class BlockingEmitStuck(Exception):
    pass


def real_log(log):
    out = []
    for ev in log.events:
        if ev[0] == "rec":
            out.append((ev[1], canon(ev[2])))
        elif ev[0] == "cs":
            out.append((ev[1], canon(ev[3])))
    return out


def run_real(case):
    spec = case["spec"]
    log = Log()
    pend = []

    def go(loop):
        b = specs.build(spec, log, asynchronous=loop is not None)
        for idx, e in enumerate(case["events"]):
            if e[0] == "e":
                r = b.nodes[specs.entry_ids(spec)[e[1]]].emit(mk(e[2], idx))
                if loop is not None:
                    pend.append(r)
            else:
                b.nodes[e[1]].flush()
            if loop is not None:
                loop.drain()
        return b

    if case["mode"] == "async":
        with install() as loop:
            b = go(loop)
            not_done = [i for i, f in enumerate(pend) if f is not None and not f.done()]
            errs = [f.exception() for f in pend if f is not None and f.done() and f.exception()]
    elif case["mode"] == "thread":
        # blocking emits against the real background-thread loop (sync())
        b = specs.build(spec, log, asynchronous="thread")
        box = {}

        def emits():
            import asyncio
            own = asyncio.new_event_loop()      # like a main thread: a current loop exists
            asyncio.set_event_loop(own)
            try:
                for idx, e in enumerate(case["events"]):
                    box["at"] = idx
                    if e[0] == "e":
                        b.nodes[specs.entry_ids(spec)[e[1]]].emit(mk(e[2], idx))
                    else:
                        b.nodes[e[1]].flush()
            except BaseException as ex:  # noqa: BLE001  (re-raised on the main thread)
                box["exc"] = ex
            finally:
                asyncio.set_event_loop(None)
                own.close()
        import threading
        th = threading.Thread(target=emits, daemon=True)
        th.start()
        th.join(60)     # consumers are synchronous: a blocking emit takes milliseconds
        if th.is_alive():
            raise BlockingEmitStuck(box.get("at"))
        if "exc" in box:
            raise box["exc"]
        for s_ in b.nodes:
            if type(s_).__name__ == "sink":
                s_.destroy()
        not_done, errs = [], []
    else:
        b = go(None)
        not_done, errs = [], []
    del b
    return real_log(log), not_done, errs


def run_model(case):
    spec = case["spec"]
    g = ModelGraph(spec)
    ents = specs.entry_ids(spec)
    for idx, e in enumerate(case["events"]):
        if e[0] == "e":
            g.push(ents[e[1]], mk(e[2], idx))
        else:
            g.flush(e[1])
    return [(i, canon(x)) for i, x, _ in g.log]


def compare(spec, real, model, pid=ID):
    """-> list of (signature, detail); root cause = the first node (lowest id) whose own
    emission sequence differs; otherwise the global interleaving differs."""
    if real == model:
        return []
    n = len(spec["nodes"])
    for i in range(n):
        r = [x for j, x in real if j == i]
        m = [x for j, x in model if j == i]
        if r != m:
            nd = spec["nodes"][i]
            kind = nd["k"]
            if kind == "sink":
                kind = "sink<-" + spec["nodes"][nd["u"][0]]["k"]
            k = 0
            while k < min(len(r), len(m)) and r[k] == m[k]:
                k += 1
            what = "lost" if len(r) < len(m) and r == m[:len(r)] else \
                   "extra" if len(m) < len(r) and m == r[:len(m)] else "differs"
            return [("%s:%s:output-%s" % (pid, kind, what),
                     "node %d (%s %s): real[%d:]=%s model[%d:]=%s" % (
                         i, nd["k"], nd["p"], k, r[k:k + 3], k, m[k:k + 3]))]
    k = 0
    while k < min(len(real), len(model)) and real[k] == model[k]:
        k += 1
    return [("%s:execution-order" % pid,
             "global log differs at %d: real=%s model=%s" % (k, real[k:k + 3], model[k:k + 3]))]


def execute(case):
    spec = case["spec"]
    try:
        real, not_done, errs = run_real(case)
    except BlockingEmitStuck as e:
        # (elapsed real time enters this verdict: 60 s for work that takes milliseconds; the
        # process keeps a blocked thread and is not used further)
        return Result([(ID + ":threaded:blocking-emit-never-returns",
                        "event %s of %s: emit() with synchronous consumers has not returned after "
                        "60 s" % (e.args[0], case["events"]))], nontrivial=True, abort=True)
    model = run_model(case)
    v = compare(spec, real, model)
    if not_done and not any(nd['k'] == 'zip' for nd in spec['nodes']):
        # (a zip whose other input is starved legitimately blocks its producer: back-pressure)
        v.append((ID + ":emit-never-completed", "emits %s pending with sync consumers" % not_done))
    for e in errs:
        v.append(("%s:emit-raised-%s" % (ID, type(e).__name__), repr(e)))
    kinds = [nd["k"] for nd in spec["nodes"]]
    n = len(kinds)
    nchildren = [sum(1 for nd in spec["nodes"] if i in nd["u"]) for i in range(n)]
    fanout = any(c >= 2 for c in nchildren)
    fanin = any(len(nd["u"]) >= 2 for nd in spec["nodes"])
    stateful = any(k in STATEFUL for k in kinds)
    per = {}
    for i, _ in real:
        per[i] = per.get(i, 0) + 1
    busy = any(c >= 2 for i, c in per.items() if spec["nodes"][i]["k"] != "entry")
    classes = ["mode:" + case["mode"]]
    if any(e[0] == "e" and e[2] == 6 for e in case["events"]):
        classes.append("None-among-the-elements")
    if spec.get("fb"):
        classes.append("feedback-edge")
    if len(specs.entry_ids(spec)) > 1:
        classes.append("multi-entry")
    if fanout:
        classes.append("fan-out")
    if fanin:
        classes.append("fan-in")
    for k in set(kinds):
        classes.append("kind:" + k)
    return Result(v, nontrivial=(fanout or fanin or stateful) and busy, classes=classes)


@st.composite
def threaded_strategy(draw, tier="quick"):
    # no zip: a blocking emit into a starved zip input legitimately blocks for ever
    spec = draw(specs.pipeline_spec(kinds=[k for k in specs.SYNC_KINDS if k != "zip"], max_nodes=7,
                                    feedback=False))
    ents = specs.entry_ids(spec)
    cols = specs.collect_ids(spec)
    ev = st.tuples(st.just("e"), st.integers(0, len(ents) - 1), st.integers(0, 5))
    if cols:
        ev = st.one_of(ev, ev, ev, st.tuples(st.just("f"), st.sampled_from(cols)))
    events = draw(st.lists(ev, min_size=1, max_size=15))
    return {"spec": spec, "events": [list(e) for e in events], "mode": "thread"}


PARTS = [Part("pipelines", case_strategy, execute, quick=2400, thorough=12000),
         Part("threaded", threaded_strategy, execute, quick=120, thorough=600, shards=4,
              quick_shards=2, quick_factor=1),
         Part("coverage-guided:pipelines", None, execute, quick=0, thorough=0, shards=1,
              exhaustive=runner_fuzz_part(ID, "pipelines"))]
