"""C07 — windowed aggregations equal pandas on exactly the rows inside the window."""
import pandas as pd
from hypothesis import strategies as st

from streamz import Stream
from streamz.dataframe import DataFrame

from harness.runner import Part, Result, fuzz_part as runner_fuzz_part
from props import dfcommon as dc

ID = "C07"
RULE = ("Tables as in C06 (time-indexed for duration windows: non-decreasing timestamps on a 1 s "
        "grid with duplicates) split at generated cut positions (empty batches anywhere, batches "
        "smaller / equal / larger than the window); window(n=N), N in 1..6, or window(value=T), "
        "T in {1s,2s,5s}; aggregation from sum/count/mean/var/std/size/value_counts or "
        "window.groupby(column name | streaming series).{sum,count,size,mean,var,std}. Oracle: "
        "after the k-th batch the emitted value equals pandas on cat.iloc[-N:] resp. "
        "cat[cat.index > cat.index.max() - T] of the concatenated prefix (whenever that has >= 1 "
        "row); groupby results must have exactly the key set of the window (vanished groups "
        "absent); non-groupby value_counts is compared after dropping zero counts. Non-trivial: "
        "some row decayed out of the window and (a batch larger than the window, or an empty "
        "batch mid-run, or a key left and re-entered).")
ASSUMPTIONS = ["pandas backend", "dtype / index order not compared",
               "var/std of a single row: NaN == NaN"]

AGGS = ["sum", "count", "mean", "var", "std", "size", "value_counts", "full", "apply_median"]
GAGGS = ["sum", "count", "size", "mean", "var", "std"]


@st.composite
def case_strategy(draw, tier="quick"):
    timed = draw(st.integers(0, 2)) == 0
    t = draw(dc.table(max_rows=14, time_index=timed, min_rows=2, nan_keys=True))
    cuts = draw(dc.cuts_for(len(t["rows"])))
    group = draw(st.sampled_from([None, None, "col", "series"]))
    # (a row-count window may also run over a time-indexed table: duplicate labels in a batch)
    w = {"value": draw(st.sampled_from(["1s", "2s", "5s"]))} \
        if timed and draw(st.integers(0, 3)) != 0 else {"n": draw(st.integers(1, 6))}
    expr = {"base": draw(st.sampled_from(["x", "y", "xy", "x"])), "group": group,
            "agg": draw(st.sampled_from(GAGGS if group else AGGS)), "window": w,
            # how the caller spells the window: a row count may be a numpy integer, a span a
            # pandas Timedelta
            "spell": draw(st.sampled_from(["plain", "plain", "typed"]))}
    # element-wise arithmetic on the selected window column(s) before aggregating; the reflected
    # forms (number on the left) are not commutative
    expr["arith"] = draw(st.sampled_from([None, None, None, "5-w", "w-5", "w*2", "w+w"])) \
        if not group and expr["agg"] not in ("value_counts", "full", "apply_median") else None
    if expr["agg"] == "value_counts":
        expr["base"] = draw(st.sampled_from(["y", "g"]))
    if expr["agg"] in ("var", "std") and expr["base"] == "xy" and not group:
        expr["base"] = "x"
    if expr["agg"] in ("var", "std"):
        expr["ddof"] = draw(st.sampled_from([1, 1, 0, 2, 3]))
    if expr["agg"] == "apply_median":
        expr["base"] = draw(st.sampled_from(["x", "y"]))
    # every batch may carry its own RangeIndex 0..k-1 (labels repeat between batches)
    expr["per_batch_index"] = (not timed) and draw(st.booleans())
    timed = "value" in w
    # derived frame defined before the grouper expression (the frame batch reaches the join of
    # frame and grouper first)
    expr["late_grouper"] = bool(group == "series" and draw(st.booleans()))
    return {"table": t, "cuts": cuts, "expr": expr}


def win_kw(expr):
    w = dict(expr["window"])
    if expr.get("spell") == "typed":
        import numpy as np
        if "n" in w:
            w["n"] = np.int64(w["n"])
        else:
            w["value"] = pd.Timedelta(w["value"])
    return w


def ddof(expr):
    return {"ddof": expr["ddof"]} if "ddof" in expr else {}


def window_slice(cat, w):
    if "n" in w:
        return cat.iloc[-w["n"]:]
    T = pd.Timedelta(w["value"])
    return cat[cat.index > cat.index.max() - T]


def stream_expr(sdf, expr):
    w = sdf.window(**win_kw(expr))
    if expr["group"]:
        sel = {"xy": ["x", "y"], "x": "x", "y": "y"}[expr["base"]]
        if expr.get("late_grouper"):
            wide = sdf[["x", "y"]] * 1
            key = sdf.g
            return getattr(wide.window(**win_kw(expr)).groupby(key)[sel], expr["agg"])(**ddof(expr))
        gb = w.groupby("g") if expr["group"] == "col" else w.groupby(w.g)
        return getattr(gb[sel], expr["agg"])(**ddof(expr))
    if expr["agg"] == "full":
        return (w[["x", "y"]] if expr["base"] == "xy" else w[expr["base"]]).full()
    if expr["agg"] == "apply_median":
        return w[expr["base"]].apply(_median)
    sel = arith(w[["x", "y"]] if expr["base"] == "xy" else w[expr["base"]], expr)
    a = expr["agg"]
    if a == "size":
        return sel.size
    return getattr(sel, a)(**ddof(expr))


def arith(sel, expr):
    a = expr.get("arith")
    if a == "5-w":
        return 5 - sel
    if a == "w-5":
        return sel - 5
    if a == "w*2":
        return sel * 2
    if a == "w+w":
        return sel + sel
    return sel


def _median(frame):
    return frame.median()


def pandas_expr(df, expr):
    if expr["agg"] == "full":
        return df[["x", "y"]] if expr["base"] == "xy" else df[expr["base"]]
    if expr["agg"] == "apply_median":
        return df[expr["base"]].median()
    if expr["group"]:
        gb = df.groupby("g") if expr["group"] == "col" else df.groupby(df.g)
        sel = {"xy": ["x", "y"], "x": "x", "y": "y"}[expr["base"]]
        return getattr(gb[sel], expr["agg"])(**ddof(expr))
    sel = arith(df[["x", "y"]] if expr["base"] == "xy" else df[expr["base"]], expr)
    a = expr["agg"]
    if a == "size":
        return sel.size
    return getattr(sel, a)(**ddof(expr))


def execute(case):
    t, cuts, expr = case["table"], case["cuts"], case["expr"]
    bs = dc.batches(t, cuts)
    if expr.get("per_batch_index"):
        bs = [b.reset_index(drop=True) for b in bs]
    ex = dc.example_frame(t, "two")
    src = Stream()
    sdf = DataFrame(src, example=ex)
    name = ("groupby-%s." % expr["group"] if expr["group"] else "") + expr["agg"] + \
        (":n" if "n" in expr["window"] else ":value")
    try:
        out = stream_expr(sdf, expr).stream.sink_to_list()
    except Exception as e:
        return Result([("%s:cannot-build:%s" % (ID, type(e).__name__), "%s: %r" % (expr, e))],
                      nontrivial=True)
    v = []
    decayed = big = midempty = reenter = False
    prev_keys = None
    gone = set()
    for k, b in enumerate(bs):
        n0 = len(out)
        try:
            src.emit(b)
        except Exception as e:
            first_empty = all(len(x) == 0 for x in bs[:k + 1])
            v.append(("%s:%s:raises-%s%s" % (ID, name, type(e).__name__,
                                             "-on-empty-start" if first_empty else ""),
                      "batch %d (%d rows) of split %s window %s: %r" % (
                          k, len(b), [len(x) for x in bs], expr["window"], e)))
            break
        if len(out) != n0 + 1:
            v.append(("%s:%s:no-emission" % (ID, name), "batch %d" % k))
            break
        cat = pd.concat(bs[:k + 1])
        if not len(cat):
            continue
        win = window_slice(cat, expr["window"])
        if len(win) < len(cat):
            decayed = True
        if "n" in expr["window"] and len(b) > expr["window"]["n"]:
            big = True
        if len(b) == 0 and k > 0 and any(len(x) for x in bs[:k]):
            midempty = True
        keys = set(win.g)
        if prev_keys is not None:
            gone |= (prev_keys - keys)
            if keys & gone:
                reenter = True
        prev_keys = keys
        exp = pandas_expr(win, expr)
        got = out[-1]
        if expr["agg"] == "value_counts" and isinstance(got, pd.Series):
            got = got[got != 0]
        r = dc.same(got, exp)
        if r:
            what = "vanished-group-still-reported" if (
                expr["group"] and isinstance(got, pd.Series) and isinstance(exp, pd.Series)
                and set(map(repr, got.index)) > set(map(repr, exp.index))) else "wrong-value"
            v.append(("%s:%s:%s" % (ID, name, what),
                      "after batch %d of split %s, window %s, rows %s%s: streamz %r, pandas %r: %s"
                      % (k, [len(x) for x in bs], expr["window"], t["rows"],
                         (" ts %s" % t["ts"]) if "ts" in t else "", _short(got), _short(exp), r)))
            break
    classes = ["agg:" + name]
    for flag, lab in ((decayed, "row-decayed"), (big, "batch-larger-than-window"),
                      (midempty, "empty-batch-mid-run"), (reenter, "key-re-entered")):
        if flag:
            classes.append(lab)
    return Result(v, nontrivial=decayed and (big or midempty or reenter), classes=classes)


def _short(x):
    if isinstance(x, (pd.Series, pd.DataFrame)):
        return x.to_dict()
    return x


PARTS = [Part("windows", case_strategy, execute, quick=800, thorough=4000),
         Part("coverage-guided:windows", None, execute, quick=0, thorough=0, shards=1,
              exhaustive=runner_fuzz_part(ID, "windows"))]
