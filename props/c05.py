"""C05 — checkpoint balance: counts equal live holders and return to zero."""
import collections

from harness import local
from harness.elements import FUNCS
from harness.runner import Part, Result
from props import mdcommon

ID = "C05"
RULE = ("Pipelines over all node kinds, inputs mod 6 or a plain None (duplicates and colliding "
        "keys so that de-duplicating / lossy nodes drop), schedules as C02 with mostly "
        "synchronous consumers (also native coroutines, except below collect), "
        "an instrumented RefCounter per emission. At every quiescent point (after an action: loop "
        "idle, no consumer or job pending) and after the finish phase: for every counter, "
        "count == number of nodes legitimately holding it, computed by the reference semantics "
        "from the observed arrivals (unfilled partitions/windows, current sliding window, latest "
        "value per input of combine_latest/zip_latest, un-zipped zip buffers, unflushed collect, "
        "queued buffer/delay/rate_limit items, the undelivered newest of latest); count 0 implies "
        "the callback was scheduled. History invariants: never negative, never rises after "
        "reaching zero. Non-trivial: >= 1 element dropped by a lossy node and >= 1 element held "
        "at some quiescent point.")
ASSUMPTIONS = ["holders are computed per node from its observed arrivals and outputs by "
               "harness/model.py (sync kinds) and FIFO accounting (async kinds)"]

LOSSY = {"filter", "unique", "partition_unique", "timed_window_unique", "latest", "slice",
         "combine_latest", "zip_latest"}


def expected_holds(spec, ev, upto):
    """-> Counter{(class name, id(md dict)) : holds} from the log prefix ev[:upto]"""
    class _L:
        pass
    lg = _L()
    lg.events = ev[:upto]
    inputs, outputs = local.node_io(spec, lg)
    holds = collections.Counter()

    def add(cls, md):
        for m in md or []:
            if isinstance(m, dict) and "ref" in m:
                holds[(cls, id(m["ref"]))] += 1

    for i, nd in enumerate(spec["nodes"]):
        k = nd["k"]
        ins = inputs[i]
        arr = [a for a in ins if a[0] != "flush"]
        outs = outputs[i]
        if k in ("entry", "sink"):
            continue
        if k in local.KINDS:
            _, m = local.expected_sync(i, nd, ins)
            for md in m.holders():
                add(k, md)
        elif k in ("buffer", "delay", "rate_limit", "map_async"):
            for a in arr[len(outs):]:
                add(k, a[2])
        elif k == "timed_window":
            n_out = sum(len(o[0]) for o in outs)
            for a in arr[n_out:]:
                add(k, a[2])
        elif k == "partition_t":
            keyf = FUNCS[nd["p"]["key"]] if nd["p"].get("key") else (lambda x: None)
            outn = collections.Counter()
            for o in outs:
                for x in o[0]:
                    outn[keyf(x)] += 1
            seen = collections.Counter()
            for a in arr:
                kk = keyf(a[1])
                seen[kk] += 1
                if seen[kk] > outn[kk]:
                    add("partition", a[2])
        elif k == "timed_window_unique":
            last_out = outs[-1][3] if outs else -1
            keyf = FUNCS[nd["p"]["key"]]
            kept = {}
            for a in arr:
                if a[4] < last_out:
                    continue
                kk = keyf(a[1])
                if nd["p"]["keep"] == "last":
                    kept.pop(kk, None)
                    kept[kk] = a
                elif kk not in kept:
                    kept[kk] = a
            for a in kept.values():
                add(k, a[2])
        elif k == "latest":
            if arr and (not outs or outs[-1][0] is not arr[-1][1]):
                add(k, arr[-1][2])
    return holds


def truly_quiescent(spec, ev, upto):
    """No coroutine of any node can be suspended on its downstream: every FIFO node has handed on
    all it received, no zip input is over-full (a blocked producer legitimately keeps its hold
    while it waits), every emit has completed."""
    class _L:
        pass
    lg = _L()
    lg.events = ev[:upto]
    inputs, outputs = local.node_io(spec, lg)
    for i, nd in enumerate(spec["nodes"]):
        k = nd["k"]
        arr = [a for a in inputs[i] if a[0] != "flush"]
        if k in ("buffer", "delay", "rate_limit", "map_async") and len(arr) != len(outputs[i]):
            return False
        if k == "zip":
            for up in nd["u"]:
                n_in = sum(1 for a in arr if a[0] == up)
                if n_in - len(outputs[i]) > nd["p"]["maxsize"]:
                    return False
    started = {e[1] for e in lg.events if e[0] == "emitret"}
    done = {e[1] for e in lg.events if e[0] == "emitdone"}
    return started <= done


def delivered_latest(spec, ev, upto, rc):
    """how many holds on rc do latest nodes keep for a newest element they already delivered"""
    class _L:
        pass
    lg = _L()
    lg.events = ev[:upto]
    inputs, outputs = local.node_io(spec, lg)
    n = 0
    for i, nd in enumerate(spec["nodes"]):
        if nd["k"] == "latest" and inputs[i] and outputs[i] and \
                outputs[i][-1][0] is inputs[i][-1][1]:
            n += sum(1 for m in (inputs[i][-1][2] or []) if isinstance(m, dict) and m.get("ref") is rc)
    return n


def actual_holds(run):
    """net holds per (class, counter) from each counter's retain/release history"""
    net = collections.Counter()
    for k, rcs in run.rcs.items():
        for rc in rcs:
            for op, n, _, site in rc.history:
                cls = site.split(".")[0]
                net[(cls, id(rc))] += n if op == "retain" else -n
    return net


def execute(case):
    spec = case["spec"]
    samples = []

    def sample(run, loop):
        b = run.built
        if any(c.pending for c in b.consumers.values()) or \
                any(j.pending or j.running for j in b.jobs.values()) or loop.busy():
            return
        samples.append((len(run.log.events), {id(rc): rc.count for rcs in run.rcs.values()
                                              for rc in rcs},
                        actual_holds(run)))

    run = mdcommon.run_case(case, sample=sample)
    ev = run.log.events
    v = []
    sigs = set()
    names = {id(rc): rc.ident for rcs in run.rcs.values() for rc in rcs}
    rcs = {id(rc): rc for rcs in run.rcs.values() for rc in rcs}

    def add(sig, detail):
        if sig not in sigs:
            sigs.add(sig)
            v.append((sig, detail))

    n_quiet = [0]
    held_somewhere = False
    for upto, counts, net in samples:
        if not truly_quiescent(spec, ev, upto):
            continue
        n_quiet[0] += 1
        exp = expected_holds(spec, ev, upto)
        exp_total = collections.Counter()
        for (cls, rid), n in exp.items():
            exp_total[rid] += n
        if exp_total:
            held_somewhere = True
        for rid, cnt in counts.items():
            if cnt == exp_total[rid]:
                continue
            # attribute to the class whose own retain/release balance is off
            culprit = None
            classes = {c for (c, r) in list(net) + list(exp) if r == rid}
            for cls in sorted(classes):
                if net[(cls, rid)] != exp[(cls, rid)]:
                    culprit = (cls, net[(cls, rid)], exp[(cls, rid)])
                    break
            if culprit is None:
                culprit = ("?", cnt, exp_total[rid])
            what = "leak" if culprit[1] > culprit[2] else "early-release"
            if culprit[0] == "latest" and \
                    culprit[1] - culprit[2] == delivered_latest(spec, ev, upto, rcs[rid]):
                what = "held-after-delivery"  # the delivered newest element is kept held
            add("%s:%s:%s" % (ID, culprit[0], what),
                "counter of emission %s at log[%d]: count=%d, legitimate holders=%d; %s holds %d "
                "per its retain/release history but should hold %d"
                % (names[rid], upto, cnt, exp_total[rid], culprit[0], culprit[1], culprit[2]))
        for rid, cnt in counts.items():
            if cnt == 0 and exp_total[rid] == 0 and rcs[rid].history and rcs[rid].trigs == 0:
                add("%s:no-callback-at-zero" % ID, "emission %s" % (names[rid],))
    for rid, rc in rcs.items():
        if rc.min_count < 0:
            site = [h[3] for h in rc.history if h[0] == "release" and h[2] < 0][0]
            add("%s:%s:negative-count" % (ID, site.split(".")[0]),
                "emission %s went to %d at %s" % (rc.ident, rc.min_count, site))
        if rc.rose_after_zero:
            add("%s:rose-after-zero" % ID, "emission %s: %s" % (rc.ident, rc.history[:12]))
    kinds = {nd["k"] for nd in spec["nodes"]}
    lossy_drop = bool(kinds & LOSSY)
    classes = ["kind:" + k for k in kinds]
    if n_quiet[0]:
        classes.append("quiescent-samples")
    if held_somewhere:
        classes.append("held-at-quiescence")
    return Result(v, nontrivial=bool(n_quiet[0]) and held_somewhere and lossy_drop and bool(rcs),
                  classes=classes)


def strategy(tier="quick"):
    def no_orphan_coroutines(case):
        # collect.flush() is a plain call that drops what its emission returns: a coroutine handed
        # back by a sink below it is never awaited, so that consumer never runs, let alone finishes
        if any(nd["k"] == "collect" for nd in case["spec"]["nodes"]):
            case = dict(case)
            case["cmodes"] = {k: ("fut" if m == "coro" else m) for k, m in case["cmodes"].items()}
        return case
    return mdcommon.md_case(tier, faults=False, modes=("sync", "sync", "sync", "fut", "coro"),
                            none_ok=True).map(
        no_orphan_coroutines)


def enumerate_plain(tier):
    for shape in ("map-sink", "filter-drops", "partition-holds", "two-sinks"):
        for n in (1, 3):
            yield {"plain": True, "shape": shape, "n": n}


def execute_plain(case):
    """a plain synchronous pipeline driven from the caller's thread (no event loop running there),
    counters created the default way (no loop= argument): once the count is back at zero the
    completion callback runs (real threads: 10 s bound for work that takes milliseconds)"""
    import threading
    import time as _t
    from streamz import Stream
    from streamz.core import RefCounter
    src = Stream()
    got = []
    if case["shape"] == "map-sink":
        src.map(lambda x: x + 1).sink(got.append)
    elif case["shape"] == "filter-drops":
        src.filter(lambda x: False).sink(got.append)
    elif case["shape"] == "partition-holds":
        src.partition(2).sink(got.append)
    else:
        src.sink(got.append)
        src.map(lambda x: x).sink(got.append)
    fired, counters = [], []
    for i in range(case["n"]):
        rc = RefCounter(cb=lambda i=i: fired.append((i, threading.get_ident())))
        counters.append(rc)
        src.emit(i, metadata=[{"ref": rc}])
    # partition(2) legitimately keeps the last element of an odd run
    held = {case["n"] - 1} if case["shape"] == "partition-holds" and case["n"] % 2 else set()
    want = set(range(case["n"])) - held
    t0 = _t.time()
    while {i for i, _ in fired} != want and _t.time() - t0 < 10:
        _t.sleep(0.002)
    v = []
    zero = [i for i, rc in enumerate(counters) if rc.count == 0]
    missing = sorted(set(zero) - {i for i, _ in fired})
    if missing:
        v.append(("%s:no-callback-at-zero" % ID, "plain pipeline %s: counters %s are back at zero "
                  "but their completion callbacks have not run after 10 s" % (case["shape"], missing)))
    wrong = sorted(want - set(zero))
    if wrong:
        v.append(("%s:%s:leak" % (ID, case["shape"]), "counters %s not back at zero: %s" % (
            wrong, [counters[i].count for i in wrong])))
    early = sorted({i for i, _ in fired} & held)
    if early:
        v.append(("%s:partition:early-release" % ID, "callback of held element %s ran" % early))
    return Result(v, nontrivial=True, classes=["plain-pipeline-default-counter"])


PARTS = [Part("schedules", strategy, execute, quick=1600, thorough=8000),
         Part("plain-pipeline", None, execute_plain, quick=0, thorough=0, shards=1,
              exhaustive=enumerate_plain)]
