"""C09 — Kafka batches: gap-free offsets, commit after processing, at-least-once."""
import os
import sys

from hypothesis import strategies as st
from tornado.ioloop import IOLoop

FAKES = os.path.join(os.path.dirname(os.path.dirname(os.path.abspath(__file__))), "harness",
                     "fakes")
if FAKES not in sys.path:
    sys.path.insert(0, FAKES)   # `import confluent_kafka` inside streamz resolves to the fake
import confluent_kafka as ck  # noqa: E402

from streamz import Stream  # noqa: E402

from harness.elements import Log, Consumer  # noqa: E402
from harness.runner import Part, Result  # noqa: E402
from harness.vloop import install  # noqa: E402

ID = "C09"
RULE = ("An in-memory confluent_kafka client over a broker object (per-partition logs, per-group "
        "committed offsets) that survives crashes. History = generated list of Produce(partition, "
        "n), AddPartition (refresh_partitions), Advance (a poll of the source), FinishConsumer(j) "
        "in any order, and Crash (the event loop and every Python object are discarded) followed "
        "by a restart; optionally consumer invocations that raise (in incarnations that end in "
        "a crash), auto.offset.reset given or left to its documented default (latest); followed "
        "by a restart with the same group id; configurations: 1-3 partitions, max_batch_size "
        "1-4, auto.offset.reset earliest/latest. Oracle: per partition and incarnation the "
        "emitted (low, high) ranges are contiguous and non-overlapping, start at the committed "
        "offset or the reset position, stay below the high watermark and within "
        "max_batch_size; get_message_batch delivers exactly those offsets; at every commit(o) "
        "every batch of that partition ending before o has a finished consumer; after the final "
        "restart and run to quiescence every message at or after the first start position has "
        "been handled by a finished consumer at least once (asserted when the completions of "
        "each partition were in order). Non-trivial: a crash with >= 1 batch emitted but "
        "unfinished, or an out-of-order completion.")
ASSUMPTIONS = ["the fake client is the trusted base for broker behaviour",
               "message values are non-empty (an empty value makes get_message_batch spin on a "
               "real sleep: outside the property)"]

TOPIC = "t"


@st.composite
def case_strategy(draw, tier="quick"):
    nparts = draw(st.integers(1, 3))
    acts = [st.tuples(st.just("produce"), st.integers(0, 3), st.integers(1, 5)),
            st.tuples(st.just("produce"), st.integers(0, 3), st.integers(1, 3)),
            st.just(("adv",)), st.just(("adv",)), st.just(("adv",)),
            st.tuples(st.just("fin"), st.integers(0, 3)),
            st.tuples(st.just("fin"), st.integers(0, 3)),
            st.just(("crash",))]
    refresh = draw(st.booleans())
    if refresh:
        acts.append(st.just(("addpart",)))
    lo = draw(st.sampled_from([4, 10, 18]))
    actions = draw(st.lists(st.one_of(*acts), min_size=lo, max_size=40))
    return {"nparts": nparts, "max_batch": draw(st.integers(1, 4)),
            "reset": draw(st.sampled_from(["earliest", "earliest", "latest"])),
            # auto.offset.reset left out by the caller: documented default is 'latest'
            "reset_given": draw(st.sampled_from([True, True, False])),
            # the consumer returns a future the harness finishes, or handles each batch at once
            "cmode": draw(st.sampled_from(["fut", "fut", "sync"])),
            # invocations of the consumer that raise (in incarnations that end in a crash: the
            # batch is then not completely processed, must not be committed, and is re-delivered)
            "fail_at": sorted(draw(st.sets(st.integers(0, 5), max_size=2)))
            if draw(st.integers(0, 3)) == 0 else [],
            "autocommit": draw(st.sampled_from([None, None, "true", "false", True])),
            "refresh": refresh, "pre": draw(st.lists(st.tuples(st.integers(0, 3), st.integers(1, 4)),
                                                      max_size=3)),
            "actions": [list(a) for a in actions]}


class Incarnation:
    """one run of the consuming process"""

    def __init__(self, case, cm, history, fail_at=()):
        self.fail_at = fail_at
        self.case = case
        self.cm = cm
        self.history = history

    def __enter__(self):
        self.cmgr = install()
        self.loop = self.cmgr.__enter__()
        ck.BROKER.clock = self.loop.vclock
        self.log = Log(self.loop.vclock)
        self.cons = Consumer(self.log, 0, self.case.get("cmode", "fut"), fail_at=self.fail_at)
        ck.BROKER.observer = lambda e: self.log.add("kafka", *e)
        params = {"bootstrap.servers": "fake", "group.id": "g"}
        if self.case.get("reset_given", True):
            params["auto.offset.reset"] = self.case["reset"]
        if self.case.get("autocommit") is not None:
            # whatever the caller asks for, streamz must force auto-commit off
            params["enable.auto.commit"] = self.case["autocommit"]
        self.source = Stream.from_kafka_batched(
            TOPIC, params, poll_interval="1s", max_batch_size=self.case["max_batch"],
            refresh_partitions=self.case["refresh"], asynchronous=True, loop=IOLoop.current())
        # from_kafka_batched returns source.starmap(get_message_batch): observe the batch
        # descriptors at the source and the message lists at the consumer
        self.kafka_source = self.source.upstreams[0]
        self.batches = []
        # (recorded at the source's own _emit, on the instance: a sink would be skipped when the
        # consumer below the starmap raises first)
        ks = self.kafka_source
        orig_emit = ks._emit

        def recording_emit(x, metadata=None, _o=orig_emit):
            self.batches.append(tuple(x[2:]))
            return _o(x, metadata=metadata)
        ks._emit = recording_emit
        self.sink = self.source.sink(self.cons)
        self.n_commits0 = len([c for c in ck.BROKER.calls if c[0] == "commit"])
        self.source.start()
        self.loop.drain()
        return self

    def __exit__(self, *a):
        try:
            self.kafka_source.stopped = True
        finally:
            return self.cmgr.__exit__(*a)


def execute(case):
    if not case.get("reset_given", True):
        case = dict(case)
        case["reset"] = "latest"   # "By default, a stream will start reading from the latest offsets"
    ck.BROKER.reset()
    ck.BROKER.create(TOPIC, case["nparts"])
    produced = 0

    def produce(p, n):
        nonlocal produced
        p = p % len(ck.BROKER.logs[TOPIC])
        for _ in range(n):
            o = len(ck.BROKER.logs[TOPIC][p])
            ck.BROKER.produce(TOPIC, p, ("m", p, o))
            produced += 1

    for p, n in case["pre"]:
        produce(p, n)
    v = []
    incarnations = []   # per incarnation: dict(batches=[(partition, low, high)], handled=...)
    handled = set()     # (partition, offset) handled by a *finished* consumer, over all runs
    first_start = {}    # partition -> first start position ever
    first_committed_low = {}   # partition -> low of the first batch whose end was committed
    crash_with_unfinished = False
    out_of_order = False
    inorder_ok = True

    def check_incarnation(inc, final):
        nonlocal crash_with_unfinished, out_of_order, inorder_ok
        ev = inc.log.events
        # consumer invocations: value lists
        called = {}
        finished = {}
        for i, e in enumerate(ev):
            if e[0] == "cc":
                called[e[2]] = (i, e[3])
            elif e[0] == "cf":
                finished[e[2]] = i
        # ---- ranges ---------------------------------------------------------------------------
        per = {}
        for (part, keys, low, high) in inc.batches:
            per.setdefault(part, []).append((low, high))
        committed0 = inc.committed_at_start
        for part, rs in per.items():
            wm = len(ck.BROKER.logs[TOPIC][part])
            start = committed0.get(part, ck.OFFSET_INVALID)
            prev_high = None
            for (low, high) in rs:
                if high - low + 1 > inc.case["max_batch"] or high < low:
                    v.append(("%s:batch-size" % ID, "partition %d batch (%d,%d) max_batch_size %d"
                              % (part, low, high, inc.case["max_batch"])))
                if high >= wm:
                    v.append(("%s:beyond-watermark" % ID, "partition %d batch (%d,%d) watermark %d"
                              % (part, low, high, wm)))
                if prev_high is None:
                    if start != ck.OFFSET_INVALID and low != start:
                        v.append(("%s:first-batch-not-at-committed-offset" % ID,
                                  "partition %d committed %d first batch (%d,%d)" % (
                                      part, start, low, high)))
                    if start == ck.OFFSET_INVALID and inc.case["reset"] == "earliest" and \
                            part in inc.initial_parts and low != 0:
                        v.append(("%s:first-batch-not-at-earliest" % ID, "partition %d first "
                                  "batch (%d,%d)" % (part, low, high)))
                    if start == ck.OFFSET_INVALID and inc.case["reset"] == "latest" and \
                            part in inc.wm_at_start and low != inc.wm_at_start[part]:
                        v.append(("%s:first-batch-not-at-latest" % ID, "partition %d held %d "
                                  "messages when the source started; first batch (%d,%d)" % (
                                      part, inc.wm_at_start[part], low, high)))
                    first_start.setdefault(part, low)
                elif low != prev_high + 1:
                    what = "gap" if low > prev_high + 1 else "overlap"
                    v.append(("%s:offset-%s" % (ID, what), "partition %d batches %s" % (part, rs)))
                prev_high = high
        # ---- get_message_batch delivers exactly those offsets ------------------------------------
        msgs = [val for _, (i, val) in sorted(called.items())]
        for k, (part, keys, low, high) in enumerate(inc.batches[:len(msgs)]):
            exp = [("m", part, o) for o in range(low, high + 1)]
            if list(msgs[k]) != exp:
                v.append(("%s:batch-content" % ID, "batch (%d,%d,%d) delivered %r" % (
                    part, low, high, msgs[k])))
        # ---- commit only after processing ------------------------------------------------------------
        batch_of_inv = {inv: inc.batches[k] for k, inv in enumerate(sorted(called))
                        if k < len(inc.batches)}
        fin_time = {}
        for inv, (part, keys, low, high) in batch_of_inv.items():
            if inv in finished:
                fin_time[(part, high)] = inc.log.events[finished[inv]][3]
        # order in the incarnation's own log: a commit of offset o (partition p) must come after
        # the "cf" of the consumer invocation that handled the batch ending at o-1
        inv_of_batch = {b: inv for inv, b in batch_of_inv.items()}
        cf_pos = {e[2]: i for i, e in enumerate(ev) if e[0] == "cf"}
        for i, e in enumerate(ev):
            if e[0] == "kafka" and e[1] == "commit":
                part, off = e[4], e[5]
                b = [bb for bb in inc.batches if bb[0] == part and bb[3] == off - 1]
                inv = inv_of_batch.get(b[0]) if b else None
                if not b or inv is None or cf_pos.get(inv, 10 ** 9) > i:
                    v.append(("%s:commit-before-processing" % ID,
                              "commit(partition %d, offset %d) was issued at log[%d], before the "
                              "batch ending at %d had been %s" % (
                                  part, off, i, off - 1,
                                  "emitted" if not b or inv is None else "handled to the end")))
                    break
        commits = [c for c in ck.BROKER.calls if c[0] == "commit"][inc.n_commits0:]
        for c in commits:
            for (p2, keys, low, high) in inc.batches:
                if p2 == c[3] and high == c[4] - 1:
                    first_committed_low.setdefault(p2, low)
        # order of commits vs completions: use the broker call log position relative to consumer
        # finish events through virtual time + sequence numbers
        for c in commits:
            _, group, topic, part, off, t = c
            for (p2, keys, low, high) in inc.batches:
                if p2 == part and high == off - 1:   # the batch ending just before the offset
                    done = [inv for inv, b in batch_of_inv.items()
                            if b == (p2, keys, low, high) and inv in finished]
                    if not done:
                        v.append(("%s:commit-before-processing" % ID,
                                  "commit(partition %d, offset %d) although batch (%d,%d) has no "
                                  "finished consumer" % (part, off, low, high)))
                        break
                    # finished, but after the commit?
                    inv = done[0]
                    if inc.commit_seq.get((part, off), 10 ** 9) < inc.finish_seq.get(inv, -1):
                        v.append(("%s:commit-before-processing" % ID,
                                  "commit(partition %d, offset %d) was issued before the consumer "
                                  "of batch (%d,%d) finished" % (part, off, low, high)))
                        break
        # ---- bookkeeping for at-least-once -----------------------------------------------------------
        order = {}
        for inv in sorted(finished, key=lambda i: finished[i]):
            if inv in batch_of_inv:
                part, keys, low, high = batch_of_inv[inv]
                for o in range(low, high + 1):
                    handled.add((part, o))
                last = order.get(part)
                if last is not None and low < last:
                    out_of_order = True
                    inorder_ok = False
                order[part] = low
        # a batch finished while an earlier batch of the same partition is still unfinished
        for inv, b in batch_of_inv.items():
            if inv in finished:
                for inv2, b2 in batch_of_inv.items():
                    if b2[0] == b[0] and b2[2] < b[2] and (inv2 not in finished or
                                                          finished[inv2] > finished[inv]):
                        out_of_order = True
                        inorder_ok = False
        if not final and any(inv not in finished for inv in called):
            crash_with_unfinished = True
        if any(e[0] == "cx" for e in ev):
            # a batch whose consumer raised never completes: "provided batches of a partition
            # complete in order" does not hold, re-delivery is not asserted
            inorder_ok = False

    expected_base = {}   # partition -> where the very first incarnation must start reading

    def run_incarnation(actions, final):
        wm_before = {p_: len(l_) for p_, l_ in enumerate(ck.BROKER.logs[TOPIC])}
        # (read before the source exists: a synchronous consumer finishes and commits the first
        # batches while the source is being started)
        committed_before = {p: ck.BROKER.committed.get(("g", TOPIC, p), ck.OFFSET_INVALID)
                            for p in range(len(ck.BROKER.logs[TOPIC]) + 4)}
        fail_at = case.get("fail_at", []) if any(a[0] == "crash" for a in actions) else []
        with Incarnation(case, None, None, fail_at=fail_at) as inc:
            inc.initial_parts = set(range(len(ck.BROKER.logs[TOPIC])))
            inc.wm_at_start = dict(wm_before)
            if not expected_base:
                for p_, n_ in wm_before.items():
                    c_ = committed_before.get(p_, ck.OFFSET_INVALID)
                    expected_base[p_] = c_ if c_ != ck.OFFSET_INVALID else (
                        0 if case["reset"] == "earliest" else n_)
            inc.committed_at_start = committed_before
            inc.commit_seq = {}
            inc.finish_seq = {}
            seq = [0]
            crashed = False
            rest = []

            def note_commits():
                cs = [c for c in ck.BROKER.calls if c[0] == "commit"][inc.n_commits0:]
                for c in cs:
                    key = (c[3], c[4])
                    if key not in inc.commit_seq:
                        seq[0] += 1
                        inc.commit_seq[key] = seq[0]

            for i, a in enumerate(actions):
                op = a[0]
                if op == "produce":
                    produce(a[1], a[2])
                elif op == "addpart":
                    if len(ck.BROKER.logs[TOPIC]) < 4:
                        ck.BROKER.add_partition(TOPIC)
                elif op == "adv":
                    nt = inc.loop.next_timer()
                    if nt is not None:
                        inc.loop.advance_to(nt)
                elif op == "fin":
                    if inc.cons.pending:
                        j = a[1] % len(inc.cons.pending)
                        inv = inc.cons.pending[j][0]
                        note_commits()
                        seq[0] += 1
                        inc.finish_seq[inv] = seq[0]
                        inc.cons.finish(j)
                elif op == "crash":
                    crashed = True
                    rest = actions[i + 1:]
                    break
                inc.loop.drain()
                note_commits()
            if not crashed and final:
                # run to quiescence: finish everything in order, keep polling
                for _ in range(60):
                    while inc.cons.pending:
                        inv = inc.cons.pending[0][0]
                        note_commits()
                        seq[0] += 1
                        inc.finish_seq[inv] = seq[0]
                        inc.cons.finish(0)
                        inc.loop.drain()
                        note_commits()
                    nt = inc.loop.next_timer()
                    if nt is None:
                        break
                    inc.loop.advance_to(nt)
                    note_commits()
                    total = sum(len(l) for l in ck.BROKER.logs[TOPIC])
                    if not inc.cons.pending and all(
                            any(b[0] == p and b[3] == len(l) - 1 for b in inc.batches) or not l
                            or ck.BROKER.committed.get(("g", TOPIC, p), -1) >= len(l)
                            for p, l in enumerate(ck.BROKER.logs[TOPIC])):
                        # one more poll to let the last commits land
                        pass
            check_incarnation(inc, final and not crashed)
            return crashed, rest

    actions = list(case["actions"])
    n_inc = 0
    committed_before_first_crash = set()
    while True:
        n_inc += 1
        crashed, rest = run_incarnation(actions, final=True)
        if n_inc == 1:
            committed_before_first_crash = set(ck.BROKER.committed)
        if not crashed or n_inc > 6:
            break
        actions = rest
    if crashed:
        run_incarnation([], final=True)
    # ---- at-least-once ------------------------------------------------------------------------
    if inorder_ok and not v:
        missing = []
        for p, l in enumerate(ck.BROKER.logs[TOPIC]):
            if p >= case["nparts"]:
                # added while running and discovered by refresh_partitions: read from the
                # beginning; after a crash the restarted process sees it as an initial partition
                base = 0 if (case["refresh"] and n_inc == 1) else (
                    first_committed_low.get(p) if case["refresh"] else None)
            else:
                base = expected_base.get(p)
            if base is None:
                continue
            if case["reset"] == "latest" and n_inc > 1 and p < case["nparts"] and \
                    ("g", TOPIC, p) not in committed_before_first_crash:
                # 'latest' with nothing committed before a crash restarts at the new end of the
                # log: redelivery is promised only from the first batch that was committed on
                if p not in first_committed_low:
                    continue
                base = first_committed_low[p]
            for o in range(base, len(l)):
                if (p, o) not in handled:
                    missing.append((p, o))
        if missing:
            v.append(("%s:message-never-processed" % ID,
                      "after the final restart and run to quiescence, never handled by a finished "
                      "consumer: %s (first start positions %s)" % (missing[:8], first_start)))
    seen = set()
    v = [x for x in v if not (x[0] in seen or seen.add(x[0]))]
    classes = ["reset:" + case["reset"] + ("" if case.get("reset_given", True) else "(default)"), "parts:%d" % case["nparts"], "incarnations:%d" % n_inc]
    if crash_with_unfinished:
        classes.append("crash-with-unfinished-batch")
    if case.get("fail_at"):
        classes.append("consumer-raises")
    if out_of_order:
        classes.append("out-of-order-completion")
    return Result(v, nontrivial=crash_with_unfinished or out_of_order, classes=classes)


PARTS = [Part("histories", case_strategy, execute, quick=800, thorough=6000)]
