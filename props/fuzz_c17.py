#!/venv/bin/python
"""Coverage-guided fuzz target for C17 (atheris/libFuzzer): bytes -> structured from_textfile case
-> the same oracle as the Hypothesis part.  Failing cases are appended to <out>/failures.jsonl
(the campaign continues past them); <out>/stats.json holds the execution count."""
import json
import os
import sys

HERE = os.path.dirname(os.path.dirname(os.path.abspath(__file__)))
REPO = os.environ.get("VERIF_REPO", "/repo")
for p in (os.path.join(HERE, ".deps"), HERE, REPO):
    if os.path.isdir(p):
        sys.path.insert(0, p)
import logging  # noqa: E402
logging.disable(logging.CRITICAL)
import warnings  # noqa: E402
warnings.simplefilter("ignore")
import atheris  # noqa: E402

out = "."
argv = [sys.argv[0]]
it = iter(sys.argv[1:])
for a in it:
    if a == "--out":
        out = next(it)
    else:
        argv.append(a)

with atheris.instrument_imports(include=["streamz.sources"]):
    import streamz.sources  # noqa: F401
from props import c17  # noqa: E402

state = {"n": 0, "sigs": set()}


def TestOneInput(data):
    fdp = atheris.FuzzedDataProvider(data)
    d = c17.DELIMS[fdp.ConsumeIntInRange(0, len(c17.DELIMS) - 1)]
    from_end = fdp.ConsumeBool()
    by_name = fdp.ConsumeBool()
    mode = ["sync", "fut", "coro"][fdp.ConsumeIntInRange(0, 2)]
    npre = fdp.ConsumeIntInRange(0, 4)
    alphabet = c17.ALPHABET
    pre = "".join(alphabet[fdp.ConsumeIntInRange(0, len(alphabet) - 1)] for _ in range(npre))
    chunks, polls = [], []
    for _ in range(fdp.ConsumeIntInRange(1, 8)):
        n = fdp.ConsumeIntInRange(0, 6)
        chunks.append("".join(alphabet[fdp.ConsumeIntInRange(0, len(alphabet) - 1)]
                              for _ in range(n)))
        polls.append(fdp.ConsumeIntInRange(0, 2))
    case = {"kind": "text", "delim": d, "chunks": chunks, "polls": polls, "pre": pre,
            "from_end": from_end, "by_name": by_name, "mode": mode, "interval": 0.5,
            "part": "textfile"}
    res = c17.execute_text(case)
    state["n"] += 1
    for sig, _ in res.violations:
        if sig not in state["sigs"] and len(state["sigs"]) < 5:
            state["sigs"].add(sig)
            with open(os.path.join(out, "failures.jsonl"), "a") as f:
                f.write(json.dumps(case) + "\n")
    if state["n"] % 100 == 0:
        with open(os.path.join(out, "stats.json"), "w") as f:
            json.dump({"executions": state["n"]}, f)


atheris.Setup(argv, TestOneInput)
atheris.Fuzz()
