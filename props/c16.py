"""C16 — failures reach the emitter, keep node state intact, are never checkpointed."""
from hypothesis import strategies as st

from harness import specs
from harness import local
from harness.elements import E, Log, Boom, RC, canon, prov
from harness.model import ModelGraph
from harness.runner import Part, Result, fuzz_part as runner_fuzz_part
from harness.vloop import install
from props import c01

ID = "C16"
RULE = ("Directly connected pipelines over the synchronous catalogue (no buffering node), "
        "inputs with metadata counters, and a fault plan = set of (node, invocation index) whose "
        "user function / key function / consumer raises Boom (in plain synchronous operation also "
        "dressed as StopIteration, KeyError, AttributeError or TypeError; part 'below-flatten' "
        "puts the failing nodes below a flatten); failing nodes sit on the "
        "last-attached branch of every fan-out above them, so the outcome does not depend on "
        "whether remaining siblings are visited (unspecified). Modes: synchronous, asynchronous "
        "on the virtual loop (sync, future-returning and coroutine consumers; a coroutine "
        "consumer fails inside its awaitable), threaded (blocking emit against the real "
        "background loop). Oracle: the very Boom instance reaches the caller of emit (raised or "
        "carried by the awaitable) exactly for the emissions the reference model says fail; the "
        "global recorder log equals the model in which a failing invocation leaves its node's "
        "state untouched; the failed emission's counter never schedules its callback and stays "
        "> 0. Non-trivial: a fault fired at a stateful node or below a stateful ancestor and "
        ">= 1 element followed it.")
ASSUMPTIONS = ["collect and slice are not generated here: what an *upstream* node does after a "
               "downstream failure (slice's position, collect's cache) is not stated by C16",
               "remaining siblings after a failing branch: unspecified, avoided by construction"]

KINDS = [k for k in specs.SYNC_KINDS if k not in ("collect", "slice")]
FN_KINDS = {"map", "starmap", "filter", "accumulate", "unique", "partition_unique", "sink"}
STATEFUL = {"accumulate", "unique", "partition", "partition_unique", "sliding_window", "zip",
            "combine_latest", "zip_latest"}


def children_of(spec):
    n = len(spec["nodes"])
    return [[c for c in range(n) if i in spec["nodes"][c]["u"]] for i in range(n)]


def on_last_branch(spec, f):
    """every edge on every path from an entry to f leads to the last-attached child"""
    ch = children_of(spec)
    seen, stack = set(), [f]
    while stack:
        c = stack.pop()
        for p in spec["nodes"][c]["u"]:
            if ch[p][-1] != c:
                return False
            if p not in seen:
                seen.add(p)
                stack.append(p)
    return True


def has_multi_ancestor(spec, f):
    """a one-to-many node above the failing node: whether it goes on emitting the remaining
    pieces after a failure is unspecified"""
    seen, stack = set(), [f]
    while stack:
        for p in spec["nodes"][stack.pop()]["u"]:
            if p not in seen:
                seen.add(p)
                stack.append(p)
    return any(spec["nodes"][a]["k"] in ("flatten", "zip_latest") for a in seen)


@st.composite
def case_strategy(draw, tier="quick", mode=None, kinds=None):
    spec = draw(specs.pipeline_spec(kinds=kinds or KINDS, max_nodes=7, max_entries=2, feedback=False))
    from props.c02 import with_sinks
    spec = draw(with_sinks(spec))
    nodes = spec["nodes"]
    # a failing node below a one-to-many node: only in plain synchronous operation (an earlier
    # piece failing later, inside an awaitable, after the last piece went through is the known
    # C04 finding about flatten's metadata)
    below_multi = mode is None and not specs.needs_loop(spec) and draw(st.integers(0, 3)) == 0
    cands = [i for i, nd in enumerate(nodes) if (nd["k"] in FN_KINDS or
             (nd["k"] == "partition" and nd["p"].get("key"))) and nd["p"].get("key") != "idx0"
             and on_last_branch(spec, i)
             and (below_multi or not has_multi_ancestor(spec, i))]
    faults = {}
    if cands:
        for i in draw(st.lists(st.sampled_from(cands), min_size=1, max_size=2, unique=True)):
            faults[str(i)] = sorted(draw(st.sets(st.integers(0, 5), min_size=1, max_size=3)))
    ents = specs.entry_ids(spec)
    events = draw(st.lists(st.tuples(st.just("e"), st.integers(0, len(ents) - 1),
                                     st.integers(0, 5)), min_size=2, max_size=16))
    needs = specs.needs_loop(spec)
    m = mode or ("async" if needs else ("sync" if below_multi else
                                         draw(st.sampled_from(["sync", "async"]))))
    sinks = [i for i, nd in enumerate(nodes) if nd["k"] == "sink"]
    if m == "async":
        cm = {str(i): draw(st.sampled_from(["sync", "fut", "coro"])) for i in sinks}
    elif m == "threaded":
        # a coroutine consumer completes (or fails) on the loop thread; the blocking emit must
        # wait for it and raise what it raised
        cm = {str(i): draw(st.sampled_from(["sync", "coro"])) for i in sinks}
    else:
        cm = {str(i): "sync" for i in sinks}
    md = draw(st.lists(st.sampled_from([1, 1, 2, 0, 4]), min_size=1, max_size=4))
    # class of the injected user-function failures (plain synchronous operation only: inside a
    # coroutine Python itself turns a StopIteration into a RuntimeError)
    exc = draw(st.sampled_from(["Boom", "Boom", "BoomStop", "BoomKey", "BoomAttr", "BoomType"])) \
        if m == "sync" else "Boom"
    return {"spec": spec, "events": [list(e) for e in events], "faults": faults, "mode": m,
            "cmodes": cm, "md": md, "exc": exc, "prelude": draw(st.sampled_from([False, "exception", "interrupt"]))
            if m in ("threaded", "sync") else False}


class BlockingEmitStuck(Exception):
    pass


def run_real(case):
    from harness import elements
    elements.set_fault_class(case.get("exc", "Boom"))
    spec = case["spec"]
    cm = {int(k): v for k, v in case["cmodes"].items()}
    faults = {int(k): set(v) for k, v in case["faults"].items()}
    ents = specs.entry_ids(spec)
    outcome = []
    rcs = {}

    def one(b, log, loop, idx, e):
        from harness.schedule import md_for
        md, r = md_for(case["md"][idx % len(case["md"])], idx, log)
        if md is not None:
            rcs[idx] = r
        log.add("emit", idx, e[1], None)
        exc = None
        fut = None
        try:
            fut = b.nodes[ents[e[1]]].emit(E(e[2], {idx}), metadata=md)
        except Boom as ex:
            exc = ex
        if loop is not None:
            loop.drain()
            for c in b.consumers.values():  # coroutine consumers fail inside their awaitable
                c.finish_all()
            loop.drain()
            if fut is not None and exc is None and fut.done() and fut.exception() is not None:
                exc = fut.exception()
            if fut is not None and exc is None and not fut.done():
                exc = "pending"  # blocked by back-pressure (starved zip input): no verdict yet
        outcome.append(exc)

    if case["mode"] == "async":
        with install() as loop:
            log = Log(loop.vclock)
            b = specs.build(spec, log, asynchronous=True, consumer_modes=cm, faults=faults)
            for idx, e in enumerate(case["events"]):
                one(b, log, loop, idx, e)
    else:
        box = {"log": Log()}

        def body():
            log = box["log"]
            if case.get("prelude"):
                # the same thread first uses an asynchronous pipeline whose function raises (that
                # exception reaches us, as it should); whatever per-thread state emit() keeps must
                # not leak into the pipelines used afterwards
                from streamz import Stream
                with install():
                    s0 = Stream(asynchronous=True)

                    class Interrupt(BaseException):
                        """like KeyboardInterrupt: not an Exception"""

                    def boom(x):
                        if case["prelude"] == "interrupt":
                            raise Interrupt()
                        raise Boom(("prelude", 0, 0))
                    m0 = s0.map(boom)
                    try:
                        s0.emit(1)
                    except (Boom, Interrupt):
                        pass
                    del m0
            b = specs.build(spec, log, asynchronous="thread" if case["mode"] == "threaded" else False,
                            consumer_modes=cm, faults=faults)
            for c_ in b.consumers.values():
                c_.auto = True   # no harness-resolved futures off the virtual loop
            for idx, e in enumerate(case["events"]):
                one(b, log, None, idx, e)
            if case["mode"] == "threaded":
                for s in b.nodes:
                    if type(s).__name__ == "sink":
                        s.destroy()

        if case["mode"] == "threaded":
            # prelude and blocking emits on one helper thread, so that a blocking emit that never
            # returns becomes a verdict instead of stalling the check
            import threading

            def guarded_body():
                import asyncio
                # like a main thread: a current (not running) event loop exists
                own = asyncio.new_event_loop()
                asyncio.set_event_loop(own)
                try:
                    body()
                except BaseException as ex:  # noqa: BLE001  (re-raised below)
                    box["exc"] = ex
                finally:
                    asyncio.set_event_loop(None)
                    own.close()
            th = threading.Thread(target=guarded_body, daemon=True)
            th.start()
            th.join(60)
            if th.is_alive():
                raise BlockingEmitStuck(len(outcome))
            if "exc" in box:
                raise box["exc"]
        else:
            body()
        log = box["log"]
    return outcome, rcs, log


def execute(case):
    spec = case["spec"]
    nodes = spec["nodes"]
    faults = {int(k): set(v) for k, v in case["faults"].items()}
    try:
        outcome, rcs, log = run_real(case)
    except BlockingEmitStuck as e:
        # (elapsed real time enters this verdict: 60 s for work that takes milliseconds)
        return Result([("%s:threaded:blocking-emit-never-returns" % ID, "emission %s of %s: the "
                        "blocking emit has not returned after 60 s (consumers finish at once)" % (
                            e.args[0], case["events"]))], nontrivial=True, abort=True)
    ev = log.events
    v = []
    # ---- (a) the raised instance reaches the caller, exactly when a fault fired --------------
    window = -1
    fired = {}  # emission idx -> [(kind, exception instance, provenance)]
    fired_at = {}  # emission idx -> [node id], parallel to fired
    cc = {}
    for e in ev:
        if e[0] == "emit":
            window = e[1]
        elif e[0] == "cc":
            cc[(e[1], e[2])] = e[3]
        elif e[0] == "fx":
            fired.setdefault(window, []).append((nodes[e[1]]["k"], e[4], e[3]))
            fired_at.setdefault(window, []).append(e[1])
        elif e[0] == "cx":
            fired.setdefault(window, []).append(("sink", e[3], prov(cc[(e[1], e[2])])))
            fired_at.setdefault(window, []).append(e[1])
    for idx, exc in enumerate(outcome):
        f = fired.get(idx, [])
        if isinstance(exc, str):
            continue
        if f and exc is None:
            v.append(("%s:%s:exception-lost" % (ID, f[0][0]),
                      "emission %d: %r was raised but emit neither raised nor carried it" % (
                          idx, f[0][1])))
            break
        if exc is not None and not any(exc is x for _, x, _ in f):
            v.append(("%s:%s:not-the-raised-instance" % (ID, f[0][0] if f else "none"),
                      "emission %d: caller saw %r; raised: %r" % (idx, exc, [x for _, x, _ in f])))
            break
    # a blocking emit returns only when the consumers are done: a consumer that was called but
    # never ran to its end means its outcome (possibly an exception) can never reach the caller
    if case["mode"] in ("threaded", "sync"):
        # (emissions in which a fault fired are left out: what happens to siblings that were
        # reached before the failing branch is not stated)
        called, w_ = set(), -1
        for e in ev:
            if e[0] == "emit":
                w_ = e[1]
            elif e[0] == "cc" and w_ not in fired:
                called.add((e[1], e[2]))
        ended = {(e[1], e[2]) for e in ev if e[0] in ("cf", "cx")}
        if called - ended:
            v.append(("%s:sink:consumer-called-but-never-completed" % ID,
                      "mode %s: invocations %s of the consumer were started by a blocking emit "
                      "that returned without them having finished" % (
                          case["mode"], sorted(called - ended)[:4])))
    # ---- (b) state kept: every node's observed output is the documented function of its
    # observed input with the failing invocations removed ------------------------------------
    inputs, outputs = local.node_io(spec, log)
    def above_a_fault(i):
        stack, seen = list(faults), set()
        while stack:
            for p_ in nodes[stack.pop()]["u"]:
                if p_ == i:
                    return True
                if p_ not in seen:
                    seen.add(p_)
                    stack.append(p_)
        return False
    for i, nd in enumerate(nodes):
        if nd["k"] == "entry":
            continue
        if nd["k"] in ("flatten", "zip_latest") and above_a_fault(i):
            continue   # whether it goes on with the remaining pieces after a failure is not stated
        if nd["k"] == "sink":
            got = [canon(e[3]) for e in ev if e[0] == "cc" and e[1] == i]
            exp = [canon(a[1]) for a in inputs[i]]
        else:
            got = [canon(o[0]) for o in outputs[i]]
            # (a "viadict" map is two real nodes: arrivals are observed at the second one, behind
            # the function that fails, so they already are the surviving elements)
            exp, _ = local.expected_sync(i, nd, inputs[i],
                                         None if nd["p"].get("f") == "viadict" else faults.get(i))
            exp = [canon(x) for x, _ in exp]
        if got != exp:
            what = "state-changed-by-failure" if i in faults else "output-differs"
            v.append(("%s:%s:%s" % (ID, nd["k"], what),
                      "node %d %s faults=%s: got %s expected %s" % (
                          i, nd["p"], sorted(faults.get(i, [])), got[:6], exp[:6])))
            break
    # ---- (c) never checkpointed ------------------------------------------------------------
    for idx, f in fired.items():
        for (kind, x, pv), at in zip(f, fired_at[idx]):
            if has_multi_ancestor(spec, at):
                # below a flatten an earlier piece travels without its batch's counter (the known
                # C04 finding): whether that counter was triggered says nothing about this failure
                continue
            for k in pv:
                for rc in rcs.get(k, []):
                    if rc.trigs or rc.count <= 0:
                        v.append(("%s:%s:failed-element-checkpointed" % (ID, kind),
                                  "emission %s: %r was raised on data derived from it, but its "
                                  "counter: count=%d, callback scheduled %d time(s); last "
                                  "operations %s" % (k, x, rc.count, rc.trigs, rc.history[-5:])))
                        break
    seen = set()
    v = [x for x in v if not (x[0] in seen or seen.add(x[0]))]
    kinds = [nd["k"] for nd in nodes]
    stateful = False
    for f in faults:
        anc, stack = {f}, [f]
        while stack:
            for p in nodes[stack.pop()]["u"]:
                if p not in anc:
                    anc.add(p)
                    stack.append(p)
        if any(kinds[a] in STATEFUL for a in anc):
            stateful = True
    first = min(fired) if fired else None
    followed = first is not None and first < len(outcome) - 1
    classes = ["mode:" + case["mode"], "exception:" + case.get("exc", "Boom")] + \
        ["kind:" + k for k in set(kinds)]
    if any(has_multi_ancestor(spec, f) for f in faults):
        classes.append("fault-below-one-to-many-node")
    if fired:
        classes.append("fault-fired")
    for k, mo in case["cmodes"].items():
        if int(k) in faults:
            classes.append("failing-consumer:" + mo)
    return Result(v, nontrivial=bool(fired) and stateful and followed, classes=classes)


@st.composite
def below_flatten_case(draw, tier="quick"):
    """entry -> batching node -> flatten -> 1-2 user-function nodes -> sink, plain synchronous
    operation, failures of every exception class in the nodes below the flatten"""
    nodes = [{"k": "entry", "u": [], "p": {}, "t": "E"}]
    if draw(st.booleans()):
        n = draw(st.integers(1, 3))
        partial = draw(st.booleans())
        nodes.append({"k": "sliding_window", "u": [0], "p": {"n": n, "partial": partial},
                      "t": ["L", "E"] if partial else ["H", ["E"] * n]})
    else:
        nodes.append({"k": "map", "u": [0], "p": {"f": "pair"}, "t": ["H", ["E", "E"]]})
    nodes.append({"k": "flatten", "u": [1], "p": {}, "t": "E"})
    for _ in range(draw(st.integers(1, 2))):
        k = draw(st.sampled_from(["map", "filter", "accumulate"]))
        p = {"map": {"f": draw(st.sampled_from(["inc", "dbl"]))},
             "filter": {"f": draw(st.sampled_from(["is_even", "lt3"]))},
             "accumulate": {"f": "acc_add", "start": draw(st.integers(0, 5)), "rs": False,
                            "ws": False}}[k]
        nodes.append({"k": k, "u": [len(nodes) - 1], "p": p, "t": "E"})
    nodes.append({"k": "sink", "u": [len(nodes) - 1], "p": {}, "t": None})
    cands = list(range(3, len(nodes)))
    faults = {}
    for i in draw(st.lists(st.sampled_from(cands), min_size=1, max_size=2, unique=True)):
        faults[str(i)] = sorted(draw(st.sets(st.integers(0, 7), min_size=1, max_size=3)))
    events = draw(st.lists(st.tuples(st.just("e"), st.just(0), st.integers(0, 5)), min_size=2,
                           max_size=12))
    return {"spec": {"nodes": nodes, "fb": None}, "events": [list(e) for e in events],
            "faults": faults, "mode": "sync", "cmodes": {str(len(nodes) - 1): "sync"},
            "md": draw(st.lists(st.sampled_from([1, 1, 2, 0, 4]), min_size=1, max_size=4)),
            "exc": draw(st.sampled_from(["Boom", "BoomStop", "BoomKey", "BoomAttr", "BoomType"])),
            "prelude": False}


def threaded_strategy(tier="quick"):
    # no zip: a blocking emit against a starved zip input would legitimately block for ever
    return case_strategy(tier, mode="threaded", kinds=[k for k in KINDS if k != "zip"])


PARTS = [Part("faults", case_strategy, execute, quick=2000, thorough=10000),
         Part("below-flatten", below_flatten_case, execute, quick=300, thorough=3000),
         Part("threaded", threaded_strategy, execute, quick=40, thorough=150, shards=4,
              quick_shards=1, quick_factor=1),
         Part("coverage-guided:faults", None, execute, quick=0, thorough=0, shards=1,
              exhaustive=runner_fuzz_part(ID, "faults"))]
