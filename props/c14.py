"""C14 — latest delivers an in-order subsequence ending with the newest element."""
from hypothesis import strategies as st

from harness import schedule, local
from harness.elements import prov
from harness.runner import Part, Result

ID = "C14"
RULE = ("Pipeline entry -> [map] -> latest -> [map] -> consumer (future-returning or native "
        "coroutine, finished by the harness; without map nodes the elements may be a plain "
        "None, matched by value); schedule = any interleaving of arrivals and "
        "consumer completions (arrival while idle, while busy, several during one busy period) "
        "followed by a finish phase (consumer free, loop quiescent). Oracle: the delivered "
        "sequence is a subsequence of the arrivals with strictly increasing arrival index (no "
        "repeats, no reordering) and, after the finish phase, the most recent arrival has been "
        "delivered. Non-trivial: >= 1 arrival during a busy period.")
ASSUMPTIONS = ["single-threaded harness-owned loop: 'input stopped, consumer free, loop idle' is "
               "a sound end state"]


@st.composite
def case_strategy(draw, tier="quick"):
    nodes = [{"k": "entry", "u": [], "p": {}, "t": "E"}]
    maps = draw(st.sampled_from([(0, 0), (0, 0), (1, 0), (0, 1), (1, 1)]))
    if maps[0]:
        nodes.append({"k": "map", "u": [len(nodes) - 1], "p": {"f": "inc"}, "t": "E"})
    nodes.append({"k": "latest", "u": [len(nodes) - 1], "p": {}, "t": "E"})
    if maps[1]:
        nodes.append({"k": "map", "u": [len(nodes) - 1], "p": {"f": "dbl"}, "t": "E"})
    nodes.append({"k": "sink", "u": [len(nodes) - 1], "p": {}, "t": None})
    # value code 6 = a plain None as the element (only without map nodes: None has no provenance,
    # arrivals and deliveries are then matched by value)
    top = 6 if maps == (0, 0) and draw(st.booleans()) else 5
    spec = {"nodes": nodes, "fb": None}
    mode = draw(st.sampled_from(["fut", "coro", "fut", "sync"]))
    lo = draw(st.sampled_from([1, 3, 8]))
    acts = draw(st.lists(st.one_of(
        st.tuples(st.just("emit"), st.just(0), st.integers(0, top)),
        st.tuples(st.just("emit"), st.just(0), st.integers(0, top)),
        st.tuples(st.just("fin"), st.just(0), st.just(0))), min_size=lo, max_size=30))
    # invocations during which the consumer feeds a follow-up element back into the entry
    # before it returns (a re-entrant arrival, while latest is synchronously handing over)
    reemit = sorted(draw(st.sets(st.integers(0, 6), max_size=2))) if draw(st.booleans()) else []
    detach = None
    if draw(st.integers(0, 3)) == 0 and len(acts) >= 2:
        # destroy() the latest node in mid-run (it only disconnects) and connect it again later
        i = draw(st.integers(0, len(acts) - 1))
        detach = [i, draw(st.integers(i, len(acts)))]
    return {"spec": spec, "cmodes": {str(len(nodes) - 1): mode}, "actions": [list(a) for a in acts],
            "reemit": reemit, "detach": detach}


def execute(case):
    spec = case["spec"]
    cm = {int(k): m for k, m in case["cmodes"].items()}
    reemit = set(case.get("reemit", []))
    hook = None
    if reemit:
        from harness.elements import E

        def hook(built, log):
            cons = built.consumers[len(spec["nodes"]) - 1]
            orig = cons.__call__
            entry = built.nodes[0]
            state = {"k": 1000}

            class Wrapped:
                def __call__(self_, x, *a_, **k_):
                    inv = cons.n
                    if inv in reemit and cons.mode != "coro":
                        state["k"] += 1
                        log.add("emit", state["k"], 0, log.now())
                        entry.emit(E(0, {state["k"]}))
                    return cons(x, *a_, **k_)
            w = Wrapped()
            # the sink holds the function: swap it
            for s_ in built.nodes:
                if getattr(s_, "func", None) is cons:
                    s_.func = w
    lat = [i for i, nd in enumerate(spec["nodes"]) if nd["k"] == "latest"][0]
    step_hook = None
    if case.get("detach"):
        i0, j0 = case["detach"]

        def step_hook(k, built):
            n = built.nodes[lat]
            up = built.nodes[spec["nodes"][lat]["u"][0]]
            if k == i0:
                n.destroy()
            if k == j0 and not n.upstreams:
                up.connect(n)
    run = schedule.execute(case, consumer_modes=cm, after_build=hook, step_hook=step_hook)
    ev = run.log.events
    sink = len(spec["nodes"]) - 1
    # what latest() received, in arrival order (ids of the source emissions)
    def ident(x):
        return "None" if x is None else min(prov(x))
    arrivals = [ident(e[3]) for e in ev if e[0] == "arr" and e[1] == lat]
    delivered = [ident(e[3]) for e in ev if e[0] == "cc" and e[1] == sink]
    v = []
    # in-order subsequence: match every delivery to the earliest arrival of the same identity
    # after the previous match (identities are unique except for None, for which the earliest
    # match is the most permissive one)
    order, nxt = [], 0
    for d in delivered:
        j = next((i for i in range(nxt, len(arrivals)) if arrivals[i] == d), None)
        if j is None:
            order = None
            break
        order.append(j)
        nxt = j + 1
    if order is None:
        if any(d not in arrivals for d in delivered):
            v.append(("%s:latest:invented" % ID, "delivered %s" % delivered))
        else:
            nn = [d for d in delivered if d != "None"]
            what = "delivered-twice" if len(set(nn)) < len(nn) or \
                delivered.count("None") > arrivals.count("None") else "reordered"
            v.append(("%s:latest:%s" % (ID, what), "arrivals %s delivered %s" % (
                arrivals, delivered)))
    if arrivals and (not delivered or delivered[-1] != arrivals[-1]):
        v.append(("%s:latest:newest-never-delivered" % ID,
                  "arrivals %s, delivered %s; consumer free and loop idle at the end"
                  % (arrivals, delivered)))
    # arrival during a busy period
    busy = False
    pending = 0
    for e in ev:
        if e[0] == "cs" and e[1] == sink:
            pending += 1
        elif e[0] == "cf" and e[1] == sink:
            pending -= 1
        elif e[0] == "arr" and e[1] == lat and pending > 0:
            busy = True
    classes = ["consumer:" + list(cm.values())[0]]
    if busy:
        classes.append("arrival-while-busy")
    if len(delivered) < len(arrivals):
        classes.append("something-dropped")
    if any(k != "None" and k > 1000 for k in arrivals):
        classes.append("re-entrant-arrival")
    if "None" in arrivals:
        classes.append("None-element")
    if case.get("detach"):
        classes.append("detach-reattach")
    return Result(v, nontrivial=busy, classes=classes)


def enumerate_foreign(tier):
    for n in (1, 2, 5):
        for pause in (0.0, 0.02):
            for rep in range(2 if tier == "quick" else 10):
                yield {"foreign": True, "n": n, "pause": pause, "rep": rep}


def execute_foreign(case):
    """latest() on the shared background loop, fed by a producer that is not on that loop's
    thread (a loop-less Stream connected to it, emitting from the caller's thread): the newest
    element still arrives (real threads: 10 s bound for work that takes milliseconds)"""
    import time as _t
    from streamz import Stream
    base = Stream(asynchronous=False)
    lat = base.latest()
    seen = []
    sk = lat.sink(seen.append)
    up = Stream()
    up.connect(lat)
    _t.sleep(0.02)      # the forwarding coroutine is parked by now
    for i in range(case["n"]):
        up.emit(i)
        if case["pause"]:
            _t.sleep(case["pause"])
    t0 = _t.time()
    while (not seen or seen[-1] != case["n"] - 1) and _t.time() - t0 < 10:
        _t.sleep(0.002)
    v = []
    got = list(seen)
    if any(b <= a for a, b in zip(got, got[1:])) or any(x not in range(case["n"]) for x in got):
        v.append(("%s:latest:reordered" % ID, "foreign-thread producer emitted 0..%d, delivered %s"
                  % (case["n"] - 1, got)))
    elif not got or got[-1] != case["n"] - 1:
        v.append(("%s:latest:newest-never-delivered" % ID, "producer on another thread than the "
                  "node's loop emitted 0..%d; delivered %s after 10 s" % (case["n"] - 1, got)))
    up.disconnect(lat)
    sk.destroy()
    return Result(v, nontrivial=True, classes=["foreign-thread-producer"])


PARTS = [Part("interleavings", case_strategy, execute, quick=2400, thorough=20000),
         Part("foreign-thread-producer", None, execute_foreign, quick=0, thorough=0, shards=1,
              exhaustive=enumerate_foreign)]
