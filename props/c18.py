"""C18 — source lifecycle: one polling loop at a time, nothing emitted after stop."""
import os
import queue
import tempfile

from hypothesis import strategies as st
from tornado.ioloop import IOLoop

from streamz import Stream
from streamz.sources import from_periodic, from_iterable, from_textfile, from_q

from harness.elements import Log, Consumer
from harness.runner import Part, Result
from harness.vloop import install, workdir

ID = "C18"
RULE = ("Harness subclasses of from_periodic, from_iterable, from_textfile and from_q whose "
        "run()/_run() (the documented override points) count loop entries/exits and cycle "
        "starts, on the virtual loop with a back-pressuring consumer; history = generated list "
        "of start / stop / advance-clock / finish-consumer / put-item actions, so start and stop "
        "land at every suspension point (during sleep, during a back-pressured emit, between "
        "items). Oracle: concurrently active polling loops <= 1 at every instant; no polling "
        "cycle (no item pulled) begins while the last command was stop; an effective start "
        "(also start=True in the constructor) with no loop suspended enters run() within one "
        "turn of the loop; deliveries are each "
        "produced item exactly once, in production order; from_iterable pulls item k+1 only "
        "after the consumer finished item k and loses nothing across stop/start. Non-trivial: a "
        "stop immediately followed by start while the previous loop is still suspended.")
ASSUMPTIONS = ["sources are built with asynchronous=True and loop=IOLoop.current() (the virtual "
               "loop); restartable iterables are iterators, as in the repository's own restart "
               "test (itertools.count())"]

KINDS = ["periodic", "iterable", "q", "textfile", "serverlike"]


class H:
    def __init__(self, log):
        self.log = log
        self.active = 0
        self.max_active = 0
        self.last_cmd = None
        self.cycle_while_stopped = None
        self.produced = []

    def enter(self):
        self.active += 1
        self.max_active = max(self.max_active, self.active)
        self.log.add("loop+", self.active, self.log.now())

    def exit(self):
        self.active -= 1
        self.log.add("loop-", self.active, self.log.now())

    def cycle(self, what="cycle"):
        self.log.add(what, self.last_cmd, self.log.now())
        if self.last_cmd == "stop" and self.cycle_while_stopped is None:
            self.cycle_while_stopped = (what, self.log.now())


def instrument_gen(cls, h):
    """like instrument(), but run() is a Tornado coroutine: what start() gets back is a Future"""
    from tornado import gen

    class G(cls):
        @gen.coroutine
        def run(self):
            h.enter()
            try:
                yield super().run()
            finally:
                h.exit()

        async def _run(self):
            h.cycle()
            await super()._run()
    G.__name__ = cls.__name__
    return G


def instrument(cls, h):
    class I(cls):
        async def run(self):
            h.enter()
            try:
                r = super().run()
                if hasattr(r, "__await__"):
                    await r
            finally:
                h.exit()

        async def _run(self):
            h.cycle()
            await super()._run()
    I.__name__ = cls.__name__
    return I


@st.composite
def case_strategy(draw, tier="quick"):
    kind = draw(st.sampled_from(KINDS))
    iv = draw(st.sampled_from([0.5, 1.0]))
    mode = draw(st.sampled_from(["fut", "fut", "sync", "coro"]))
    acts = [st.just(["start"]), st.just(["stop"]), st.just(["stop"]), st.just(["start"]),
            st.just(["adv", "next"]), st.sampled_from([["adv", 0.125], ["adv", 0.5], ["adv", 1.0]]),
            st.just(["fin"]), st.just(["fin"])]
    if kind == "q":
        acts.append(st.just(["put"]))
        acts.append(st.just(["put"]))
    # "!" = the next command follows immediately, before the loop gets to run anything
    pair = st.sampled_from([[["stop"], ["start"]], [["stop!"], ["start"]], [["start!"], ["stop"]],
                            [["start!"], ["stop!"], ["start"]]])
    lo = draw(st.sampled_from([3, 8, 14]))
    steps = draw(st.lists(st.one_of(st.one_of(*acts).map(lambda a: [a]), pair), min_size=lo,
                          max_size=30))
    acts_flat = [a for s in steps for a in s]
    # from_iterable over a list (re-iterable): only redundant starts are generated, no stop (what
    # a restart of a re-iterable means is not stated); the list must come out exactly once
    listlike = kind == "iterable" and draw(st.integers(0, 3)) == 0
    if listlike:
        acts_flat = [["start" + ("!" if a[0].endswith("!") else "")] if a[0].rstrip("!") == "stop"
                     else a for a in acts_flat]
    return {"kind": kind, "interval": iv, "mode": mode, "n": draw(st.integers(3, 8)),
            "listlike": listlike, "gen_run": kind == "periodic" and draw(st.booleans()),
            "ctor_start": draw(st.sampled_from([False, False, True])),
            # positions of the iterable that hold a plain None (an item like any other)
            "none_at": sorted(draw(st.sets(st.integers(0, 8), max_size=2)))
            if kind == "iterable" and draw(st.booleans()) else [],
            "actions": acts_flat}


def execute(case):
    kind = case["kind"]
    v = []
    tmp = None
    with install() as loop:
        log = Log(loop.vclock)
        log.ctx = None
        h = H(log)
        cons = Consumer(log, 0, case["mode"])
        kw = dict(asynchronous=True, loop=IOLoop.current())
        counter = [0]

        def produce():
            k = counter[0]
            counter[0] += 1
            h.produced.append(k)
            log.add("produce", k, h.last_cmd, log.now())
            return k

        if case.get("ctor_start"):
            kw["start"] = True          # started by the constructor
            h.last_cmd = "start"
            log.add("cmd", "start(ctor)", log.now())
        if kind == "serverlike":
            # a source in the style of from_tcp / from_http_server: run() sets something up and
            # returns; the documented contract is the same (invoked by start(), once per start)
            from streamz.sources import Source

            class ServerLike(Source):
                def run(self_):
                    h.enter()
                    self_.server = object()
                    h.exit()
            src = ServerLike(**kw)
        elif kind == "periodic":
            inst = instrument_gen if case.get("gen_run") else instrument
            src = inst(from_periodic, h)(produce, poll_interval=case["interval"], **kw)
        elif kind == "iterable":
            none_at = set(case.get("none_at", []))

            def gen():
                for _ in range(case["n"] + 30):
                    if h.last_cmd == "stop" and h.cycle_while_stopped is None:
                        h.cycle_while_stopped = ("item pulled", log.now())
                    k = produce()
                    yield None if k in none_at else k
            if case.get("listlike"):
                # "the items of its iterable": the list is completed right after the node was
                # built, before anything can have run
                live_list = list(range(case["n"] // 2))
                src = instrument(from_iterable, h)(live_list, **kw)
                live_list.extend(range(case["n"] // 2, case["n"]))
            else:
                src = instrument(from_iterable, h)(gen(), **kw)
        elif kind == "q":
            class Q(queue.Queue):
                # one poll of the queue is one polling cycle: none may begin while stopped
                def get_nowait(self_):
                    item = queue.Queue.get_nowait(self_)
                    if h.last_cmd == "stop" and h.cycle_while_stopped is None:
                        h.cycle_while_stopped = ("item %r taken from the queue" % (item,),
                                                 log.now())
                    return item
            q = Q()
            src = instrument(from_q, h)(q, sleep_time=case["interval"], **kw)
        else:
            fd, tmp = tempfile.mkstemp(suffix=".txt", dir=workdir())
            os.close(fd)
            f = open(tmp, "w")
            rd = open(tmp, "r")
            src = instrument(from_textfile, h)(rd, poll_interval=case["interval"], **kw)
        sk = src.sink(cons)
        restart_while_suspended = False
        effective_starts = [1 if case.get("ctor_start") else 0]
        last_start_idx = [0]
        prev = None
        # an effective start while no loop is suspended must invoke run() ("invoked by start()"):
        # index into the log from which a loop entry is owed, checked at the next drain
        owed = [0 if case.get("ctor_start") else None]
        not_invoked = []

        def settle_owed():
            if owed[0] is not None:
                if not any(e[0] == "loop+" for e in log.events[owed[0]:]) and not not_invoked:
                    not_invoked.append([e[1] for e in log.events if e[0] == "cmd"])
                owed[0] = None
        for a in case["actions"]:
            op = a[0]
            nodrain = op.endswith("!")
            op = op.rstrip("!")
            if op == "start":
                if prev == "stop" and h.active > 0:
                    restart_while_suspended = True
                # a start is effective when the source is stopped: after a stop command, or
                # (from_iterable) after it stopped itself at the end of its iterable
                self_stopped = kind == "iterable" and h.active == 0 and \
                    any(e[0] == "loop-" for e in log.events[last_start_idx[0]:])
                if h.last_cmd != "start" or self_stopped:
                    effective_starts[0] += 1
                    last_start_idx[0] = len(log.events)
                    if h.active == 0:
                        owed[0] = len(log.events)
                h.last_cmd = "start"
                log.add("cmd", "start", log.now())
                src.start()
            elif op == "stop":
                h.last_cmd = "stop"
                log.add("cmd", "stop", log.now())
                owed[0] = None      # stopped again before the loop ran: nothing is owed
                src.stop()
            elif op == "adv":
                if a[1] == "next":
                    nt = loop.next_timer()
                    if nt is not None:
                        loop.advance_to(nt)
                else:
                    loop.advance(a[1])
            elif op == "fin":
                cons.finish(0)
            elif op == "put":
                if kind == "q":
                    q.put(produce())
                elif kind == "textfile":
                    pass
            if kind == "textfile" and op in ("adv",):
                k = produce()
                f.write("%d\n" % k)
                f.flush()
            prev = op
            if not nodrain:
                loop.drain()
                settle_owed()
            if h.active > 1:
                break
        # finish: let what is in flight complete, then stop
        cons.auto = True
        cons.finish_all()
        loop.drain()
        settle_owed()
        h.last_cmd = "stop"
        src.stop()
        for _ in range(6):
            nt = loop.next_timer()
            if nt is None:
                break
            loop.advance_to(nt)
            cons.finish_all()
        loop.drain()
        ev = log.events
        if kind == "textfile":
            f.close()
            rd.close()
        ssk = sk
        del ssk
    if tmp:
        try:
            os.remove(tmp)
        except OSError:
            pass
    name = {"periodic": "from_periodic", "iterable": "from_iterable", "q": "from_q",
            "textfile": "from_textfile", "serverlike": "server-like Source"}[kind]
    runs = sum(1 for e in ev if e[0] == "loop+")
    if runs > effective_starts[0]:
        v.append(("%s:run-invoked-without-a-start" % ID,
                  "%s: run() was entered %d times for %d effective start commands (start on a "
                  "started source must have no effect); commands: %s" % (
                      name, runs, effective_starts[0], [e[1] for e in ev if e[0] == "cmd"])))
    if not_invoked and h.max_active <= 1:
        v.append(("%s:start-did-not-invoke-run" % ID,
                  "%s: an effective start (source stopped, no polling loop suspended) was followed "
                  "by a full turn of the loop without run() being entered; commands so far: %s" % (
                      name, not_invoked[0])))
    if h.max_active > 1:
        v.append(("%s:two-polling-loops" % ID, "%s: %d polling loops active at once; commands: %s"
                  % (name, h.max_active, [e[1] for e in ev if e[0] == "cmd"])))
    if h.cycle_while_stopped is not None and h.max_active <= 1:
        v.append(("%s:%s:cycle-begins-while-stopped" % (ID, name),
                  "%s at t=%s although the last command was stop" % h.cycle_while_stopped))
    # deliveries: exactly once, in order
    def val(x):
        return int(x) if kind == "textfile" else x
    delivered = [val(e[3]) for e in ev if e[0] == "cc"]
    none_at = set(case.get("none_at", [])) if kind == "iterable" else set()
    if case.get("listlike"):
        # once the list is exhausted the source has stopped itself and a start() runs it again
        # from the top: the deliveries are complete passes over the list, then a prefix of it; a
        # start() in the middle of a pass (a started source) must not rewind it
        full = list(range(case["n"]))
        k_, ok = 0, True
        while len(delivered) - k_ > len(full):
            ok = ok and delivered[k_:k_ + len(full)] == full
            k_ += len(full)
        ok = ok and delivered[k_:] == full[:len(delivered) - k_]
        if h.max_active <= 1 and not ok:
            v.append(("%s:from_iterable:list-pass-rewound" % ID,
                      "from_iterable(list(range(%d))), start() calls only: delivered %s" % (
                          case["n"], delivered)))
    elif none_at and h.max_active <= 1:
        exp = [None if k in none_at else k for k in h.produced]
        if delivered != exp[:len(delivered)] or len(exp) - len(delivered) > 1:
            v.append(("%s:%s:item-lost" % (ID, name), "items taken from the iterable %s, "
                      "delivered %s" % (exp, delivered)))
    elif h.max_active <= 1:
        if len(set(delivered)) != len(delivered):
            v.append(("%s:%s:item-delivered-twice" % (ID, name), "delivered %s" % delivered))
        elif delivered != sorted(delivered):
            v.append(("%s:%s:out-of-order" % (ID, name), "delivered %s" % delivered))
        elif kind in ("iterable", "periodic"):
            # every produced item is delivered (the last one may be in flight at the end)
            exp = h.produced
            if delivered != exp[:len(delivered)] or len(exp) - len(delivered) > 1:
                v.append(("%s:%s:item-lost" % (ID, name), "produced %s delivered %s" % (
                    exp, delivered)))
        if kind == "iterable" and not case.get("listlike"):
            # pull k+1 only after the consumer finished item k
            fin = {}
            call = {}
            for i, e in enumerate(ev):
                if e[0] == "cc":
                    call[val(e[3])] = e[2]
                elif e[0] == "cf":
                    fin[e[2]] = i
            for i, e in enumerate(ev):
                if e[0] == "produce" and e[1] > 0:
                    prevk = e[1] - 1
                    if prevk in call and fin.get(call[prevk], 10 ** 9) > i:
                        v.append(("%s:from_iterable:pulled-before-downstream-finished" % ID,
                                  "item %d pulled while item %d was still being handled" % (
                                      e[1], prevk)))
                        break
    classes = ["source:" + name, "consumer:" + case["mode"]] + \
        (["None-item"] if none_at else []) + (["list-iterable"] if case.get("listlike") else []) + \
        (["started-by-constructor"] if case.get("ctor_start") else [])
    if restart_while_suspended:
        classes.append("stop-start-while-suspended")
    return Result(v, nontrivial=restart_while_suspended, classes=classes)


PARTS = [Part("histories", case_strategy, execute, quick=2400, thorough=15000)]
