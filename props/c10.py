"""C10 — metadata travels with exactly the data it describes."""
from hypothesis import strategies as st

from harness import local, specs
from harness.elements import FUNCS, canon
from harness.runner import Part, Result
from props import mdcommon

ID = "C10"
RULE = ("Pipelines over all node kinds (sync and async) with schedules as C02; each emission "
        "carries zero, one or two metadata dictionaries (generated plan); part 'batching-focus': "
        "one batching/combining node, long runs, every second emission unlabelled. Oracle, per "
        "node and "
        "per emitted element: the metadata argument seen by a recording child is a flat list of "
        "dicts and is, by object identity and order, exactly the documented function of the "
        "metadata of the observed inputs: unchanged for 1:1 nodes, concatenation in member order "
        "for batching/combining nodes (reference model), last piece only for flatten, nothing for "
        "elements emitted without metadata. Non-trivial: some node with >= 2 contributing inputs "
        "(batch/tuple) or a one-to-many node emitted an element whose contributors carried "
        "metadata, and at least one emission carried none or two dictionaries.")
ASSUMPTIONS = ["identity of the dict objects passed to emit() is the ground truth for 'the "
               "metadata entries of the input elements that contributed'"]

MULTI = {"partition", "partition_t", "partition_unique", "sliding_window", "zip",
         "combine_latest", "zip_latest", "collect", "timed_window", "timed_window_unique",
         "flatten"}


def ids(md):
    return [id(m) for m in (md or [])]


def check_node(spec, i, ins, outs):
    nd = spec["nodes"][i]
    k = nd["k"]
    sig = lambda what: "%s:%s:%s" % (ID, k, what)  # noqa: E731
    def flat(md):
        return md is None or (isinstance(md, list) and all(isinstance(m, dict) for m in md))
    if any(a[0] != "flush" and not flat(a[2]) for a in ins):
        return []  # malformed metadata came from upstream: blamed there
    for o in outs:
        md = o[1]
        if md is None:
            md = []
        if not isinstance(md, list) or any(not isinstance(m, dict) for m in md):
            return [(sig("not-a-flat-list-of-dicts"), "node %d emitted metadata %r" % (i, md))]
    arr = [a for a in ins if a[0] != "flush"]
    got = [ids(o[1]) for o in outs]
    if k in local.KINDS and k != "sink":
        exp, _ = local.expected_sync(i, nd, ins)
        exp = [ids(md) for _, md in exp]
    elif k in ("buffer", "delay", "rate_limit", "map_async"):
        exp = [ids(a[2]) for a in arr]
    elif k == "latest":
        exp = []
        for o in outs:
            m = [a for a in arr if a[1] is o[0] and a[4] < o[3]]
            exp.append(ids(m[-1][2]) if m else None)
    elif k == "timed_window":
        exp = []
        pos = 0
        for o in outs:
            n = len(o[0])
            exp.append([x for a in arr[pos:pos + n] for x in ids(a[2])])
            pos += n
    elif k in ("partition_t", "timed_window_unique"):
        # members are the very objects that arrived: concatenate their metadata in member order,
        # taking for each member its most recent not-yet-used arrival
        exp = []
        used = set()
        prev_tick = -1
        for o in outs:
            e = []
            for x in o[0]:
                # (timed_window_unique: only arrivals since the previous tick belong to this batch;
                # the same object may have arrived, and been dropped as a duplicate, before it)
                cands = [a for a in arr if a[1] is x and a[4] < o[3] and a[4] not in used
                         and (k != "timed_window_unique" or a[4] > prev_tick)]
                if not cands:
                    e = None
                    break
                a = cands[-1] if (k == "timed_window_unique" and nd["p"]["keep"] == "last") \
                    else cands[0]
                if k == "timed_window_unique" and nd["p"]["keep"] == "first":
                    # first arrival of that key since the previous tick
                    a = cands[0]
                used.add(a[4])
                e.extend(ids(a[2]))
            exp.append(e)
            prev_tick = o[3]
    else:
        return []
    for j, (g, e) in enumerate(zip(got, exp)):
        if e is not None and g != e:
            return [(sig("metadata-differs"),
                     "node %d %s output #%d: got %d entries %s, expected %d entries"
                     % (i, nd["p"], j, len(g), [type(m).__name__ for m in (outs[j][1] or [])][:6],
                        len(e)))]
    return []


def execute(case):
    spec = case["spec"]
    run = mdcommon.run_case(case)
    inputs, outputs = local.node_io(spec, run.log)
    v = []
    multi = False
    for i, nd in enumerate(spec["nodes"]):
        if nd["k"] in ("entry", "sink"):
            continue
        v += check_node(spec, i, inputs[i], outputs[i])
        if nd["k"] in MULTI and any(o[1] for o in outputs[i]):
            multi = True
    plans = {case["md"][k % len(case["md"])] for k in range(len(run.emits))}
    classes = ["kind:" + k for k in {nd["k"] for nd in spec["nodes"]}] + \
        ["mdplan:%d" % p for p in plans]
    return Result(v, nontrivial=multi and bool(plans & {0, 2, 3}), classes=classes)


def strategy(tier="quick"):
    return mdcommon.md_case(tier, faults=False, first=sorted(MULTI) + ["map_async", "buffer"],
                            modes=("sync", "sync", "fut", "coro"))


def batching_focus(tier="quick"):
    """one batching / combining node right below the entries, long runs of colliding elements,
    and about every second emission without metadata (member order vs. metadata order needs an
    unlabelled member between labelled ones)"""
    # (the keyed, de-duplicating nodes more often: their metadata bookkeeping is per key)
    return mdcommon.md_case(tier, faults=False, first=sorted(MULTI) + ["partition_unique"] * 5 +
                            ["timed_window_unique"] * 3, max_nodes=2, max_actions=30,
                            modes=("sync", "sync", "fut"), md_values=(0, 0, 1, 1, 2, 4),
                            min_actions=8)


@st.composite
def feedback_case(draw, tier="quick"):
    spec = draw(specs.pipeline_spec(kinds=specs.SYNC_KINDS, max_nodes=8,
                                    force_feedback=draw(st.integers(0, 3)) != 0))
    ents = specs.entry_ids(spec)
    cols = specs.collect_ids(spec)
    ev = st.tuples(st.just("e"), st.integers(0, len(ents) - 1), st.integers(0, 5))
    if cols:
        ev = st.one_of(ev, ev, ev, st.tuples(st.just("f"), st.sampled_from(cols)))
    case = {"spec": spec, "events": [list(e) for e in draw(st.lists(ev, min_size=2, max_size=25))]}
    case["mode"] = "sync" if not specs.needs_loop(case["spec"]) else "async"
    case["md"] = draw(st.lists(st.sampled_from([1, 1, 2, 0]), min_size=1, max_size=5))
    return case


def execute_feedback(case):
    """synchronous pipelines (fan-out, fan-in, feedback edges: re-entrant emission) with
    metadata: the metadata seen at every node must equal the reference model's, by identity"""
    from harness.elements import E, Log
    from harness.model import ModelGraph
    from harness.vloop import install
    spec = case["spec"]
    ents = specs.entry_ids(spec)
    mds = {}
    for idx, e in enumerate(case["events"]):
        if e[0] == "e":
            plan = case["md"][idx % len(case["md"])]
            mds[idx] = None if plan == 0 else ([{"id": idx}] if plan == 1 else
                                               [{"id": idx}, {"tag": idx}])
    log = Log()

    def go(loop):
        b = specs.build(spec, log, asynchronous=loop is not None)
        for idx, e in enumerate(case["events"]):
            if e[0] == "e":
                b.nodes[ents[e[1]]].emit(E(e[2], {idx}), metadata=mds[idx])
            else:
                b.nodes[e[1]].flush()
            if loop is not None:
                loop.drain()
        return b
    if case["mode"] == "async":
        with install() as loop:
            b = go(loop)
    else:
        b = go(None)
    g = ModelGraph(spec)
    for idx, e in enumerate(case["events"]):
        if e[0] == "e":
            g.push(ents[e[1]], E(e[2], {idx}), mds[idx])
        else:
            g.flush(e[1])
    real = [(ev[1], canon(ev[2]), [id(m) for m in (ev[3] or [])]) for ev in log.events
            if ev[0] == "rec"]
    model = [(i, canon(x), [id(m) for m in (md or [])]) for i, x, md in g.log
             if spec["nodes"][i]["k"] != "sink"]
    v = []
    if [r[:2] for r in real] == [m[:2] for m in model] and real != model:
        k = next(j for j in range(len(real)) if real[j] != model[j])
        node = real[k][0]
        v.append(("%s:%s:metadata-differs%s" % (ID, spec["nodes"][node]["k"],
                                                  "-under-feedback" if spec.get("fb") else ""),
                  "node %d %s emission #%d: %d metadata entries seen, %d expected" % (
                      node, spec["nodes"][node]["p"], k, len(real[k][2]), len(model[k][2]))))
    multi = any(nd["k"] in MULTI for nd in spec["nodes"])
    return Result(v, nontrivial=bool(spec.get("fb")) or multi,
                  classes=["sync-model"] + (["feedback-edge"] if spec.get("fb") else []))


PARTS = [Part("schedules", strategy, execute, quick=1600, thorough=8000),
         Part("batching-focus", batching_focus, execute, quick=1200, thorough=6000),
         Part("sync-with-feedback", feedback_case, execute_feedback, quick=800, thorough=6000)]
