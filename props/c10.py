"""C10 — metadata travels with exactly the data it describes."""
from harness import local
from harness.elements import FUNCS
from harness.runner import Part, Result
from props import mdcommon

ID = "C10"
RULE = ("Pipelines over all node kinds (sync and async) with schedules as C02; each emission "
        "carries zero, one or two metadata dictionaries (generated plan). Oracle, per node and "
        "per emitted element: the metadata argument seen by a recording child is a flat list of "
        "dicts and is, by object identity and order, exactly the documented function of the "
        "metadata of the observed inputs: unchanged for 1:1 nodes, concatenation in member order "
        "for batching/combining nodes (reference model), last piece only for flatten, nothing for "
        "elements emitted without metadata. Non-trivial: some node with >= 2 contributing inputs "
        "(batch/tuple) or a one-to-many node emitted an element whose contributors carried "
        "metadata, and at least one emission carried none or two dictionaries.")
ASSUMPTIONS = ["identity of the dict objects passed to emit() is the ground truth for 'the "
               "metadata entries of the input elements that contributed'"]

MULTI = {"partition", "partition_t", "partition_unique", "sliding_window", "zip",
         "combine_latest", "zip_latest", "collect", "timed_window", "timed_window_unique",
         "flatten"}


def ids(md):
    return [id(m) for m in (md or [])]


def check_node(spec, i, ins, outs):
    nd = spec["nodes"][i]
    k = nd["k"]
    sig = lambda what: "%s:%s:%s" % (ID, k, what)  # noqa: E731
    def flat(md):
        return md is None or (isinstance(md, list) and all(isinstance(m, dict) for m in md))
    if any(a[0] != "flush" and not flat(a[2]) for a in ins):
        return []  # malformed metadata came from upstream: blamed there
    for o in outs:
        md = o[1]
        if md is None:
            md = []
        if not isinstance(md, list) or any(not isinstance(m, dict) for m in md):
            return [(sig("not-a-flat-list-of-dicts"), "node %d emitted metadata %r" % (i, md))]
    arr = [a for a in ins if a[0] != "flush"]
    got = [ids(o[1]) for o in outs]
    if k in local.KINDS and k != "sink":
        exp, _ = local.expected_sync(i, nd, ins)
        exp = [ids(md) for _, md in exp]
    elif k in ("buffer", "delay", "rate_limit", "map_async"):
        exp = [ids(a[2]) for a in arr]
    elif k == "latest":
        exp = []
        for o in outs:
            m = [a for a in arr if a[1] is o[0] and a[4] < o[3]]
            exp.append(ids(m[-1][2]) if m else None)
    elif k == "timed_window":
        exp = []
        pos = 0
        for o in outs:
            n = len(o[0])
            exp.append([x for a in arr[pos:pos + n] for x in ids(a[2])])
            pos += n
    elif k in ("partition_t", "timed_window_unique"):
        # members are the very objects that arrived: concatenate their metadata in member order,
        # taking for each member its most recent not-yet-used arrival
        exp = []
        used = set()
        for o in outs:
            e = []
            for x in o[0]:
                cands = [a for a in arr if a[1] is x and a[4] < o[3] and a[4] not in used]
                if not cands:
                    e = None
                    break
                a = cands[-1] if (k == "timed_window_unique" and nd["p"]["keep"] == "last") \
                    else cands[0]
                if k == "timed_window_unique" and nd["p"]["keep"] == "first":
                    # first arrival of that key since the previous tick
                    a = cands[0]
                used.add(a[4])
                e.extend(ids(a[2]))
            exp.append(e)
    else:
        return []
    for j, (g, e) in enumerate(zip(got, exp)):
        if e is not None and g != e:
            return [(sig("metadata-differs"),
                     "node %d %s output #%d: got %d entries %s, expected %d entries"
                     % (i, nd["p"], j, len(g), [type(m).__name__ for m in (outs[j][1] or [])][:6],
                        len(e)))]
    return []


def execute(case):
    spec = case["spec"]
    run = mdcommon.run_case(case)
    inputs, outputs = local.node_io(spec, run.log)
    v = []
    multi = False
    for i, nd in enumerate(spec["nodes"]):
        if nd["k"] in ("entry", "sink"):
            continue
        v += check_node(spec, i, inputs[i], outputs[i])
        if nd["k"] in MULTI and any(o[1] for o in outputs[i]):
            multi = True
    plans = {case["md"][k % len(case["md"])] for k in range(len(run.emits))}
    classes = ["kind:" + k for k in {nd["k"] for nd in spec["nodes"]}] + \
        ["mdplan:%d" % p for p in plans]
    return Result(v, nontrivial=multi and bool(plans & {0, 2, 3}), classes=classes)


def strategy(tier="quick"):
    return mdcommon.md_case(tier, faults=False, first=sorted(MULTI) + ["map_async", "buffer"],
                            modes=("sync", "sync", "fut", "coro"))


PARTS = [Part("schedules", strategy, execute, quick=1600, thorough=8000)]
