"""C06 — streaming dataframe aggregations equal pandas on everything seen so far."""
import pandas as pd
from hypothesis import strategies as st

from streamz import Stream
from streamz.dataframe import DataFrame

from harness.runner import Part, Result, fuzz_part as runner_fuzz_part
from props import dfcommon as dc

ID = "C06"
RULE = ("Tables of <= 12 rows (x: dyadic floats k/4 with optional NaN, y: small ints, g: key in "
        "0..3 as int or str) are split at a generated sorted multiset of cut positions (repeats = "
        "empty batches, including the first and consecutive ones); an expression is generated: "
        "optional in-place assignment first (sdf['x'] = old accessor * 2, sdf[['y','x']] = "
        "sdf[['x','y']] * 2, sdf['y'] = scalar), attribute or item access to columns, "
        "column selection, optional arithmetic (+c, *c), optional boolean filter sdf[sdf.x > c] "
        "(may empty a batch), optional assign, then one aggregation from sum/count/size/mean/"
        "value_counts or groupby(column name | streaming series | g % 2).{sum,count,size,mean,"
        "var,std}. Oracle: after the k-th batch the emitted value equals the same pandas "
        "expression on pd.concat(batches[:k]) whenever the rows reaching the aggregation in that "
        "prefix are >= 1 (same type class, same index label set, values within 1e-9, NaN == NaN); "
        "elementwise stages emit per batch what pandas yields on that batch. Non-trivial: >= 2 "
        "non-empty batches and (an empty batch or a key first appearing after batch 1 or a NaN).")
ASSUMPTIONS = ["pandas backend only (no cudf)", "dtype and index order are not compared",
               "dyadic values keep the sum-of-squares variance numerically exact enough that the "
               "1e-9 tolerance is not a correctness signal"]

AGGS = ["sum", "count", "size", "mean", "value_counts"]
GAGGS = ["sum", "count", "size", "mean", "var", "std"]


@st.composite
def case_strategy(draw, tier="quick"):
    t = draw(dc.table(categorical=True, nan_keys=True, inf=True))
    cuts = draw(dc.cuts_for(len(t["rows"])))
    group = draw(st.sampled_from([None, None, "col", "series", "mod2"]))
    if group == "mod2" and t["gkind"] in ("str", "cat"):
        group = "series"
    expr = {"base": draw(st.sampled_from(["xy", "x", "y", "x", "z"])),
            "arith": draw(st.sampled_from([None, None, ["+", 1.5], ["*", 2.0], ["-", 0.25], ["r-", 3.0]])),
            "filter": draw(st.sampled_from([None, None, -1.0, 0.0, 1.0, 2.5])),
            # optional second condition, combined with & or | (compound boolean filter)
            "filter2": draw(st.sampled_from([None, None, None, ["&", 2], ["|", 4], ["&", 0]])),
            # z = x <op> y assigned as a new column before everything else
            "assign": draw(st.sampled_from(["+", "*", "-"])),
            # in-place assignment (sdf[key] = value) before everything else: a Series value
            # overwriting x (an accessor of the old column is kept alive), a DataFrame value with
            # a list key (columns pair by position: this swaps x and y), a scalar value
            "setitem": draw(st.sampled_from([None, None, None, "overwrite", "swap", "scalar"])),
            # how single columns are selected afterwards: attribute or item access
            "access": draw(st.sampled_from(["attr", "item"])),
            "group": group}
    if expr["filter"] is None:
        expr["filter2"] = None
    if group == "col" and draw(st.integers(0, 4)) == 0:
        expr["base"] = "all"     # no selection: groupby("g").agg() over every other column
    expr["agg"] = draw(st.sampled_from(GAGGS if group else AGGS))
    if expr["agg"] in ("var", "std"):
        expr["ddof"] = draw(st.sampled_from([1, 1, 0, 2, 3]))
    # build the grouped frame expression *before* the grouper expression (the frame batch then
    # reaches the join of frame and grouper first)
    expr["late_grouper"] = bool(group in ("series", "mod2") and draw(st.booleans()))
    expr["decoy_selection"] = bool(group) and draw(st.booleans())
    if expr["agg"] == "value_counts":
        expr["base"] = draw(st.sampled_from(["y", "g", "x"]))
        expr["arith"] = None
    if group and expr["base"] == "xy" and expr["arith"]:
        expr["arith"] = None
    return {"table": t, "cuts": cuts, "expr": expr,
            "example": draw(st.sampled_from(["two", "two", "empty"]))}


def apply_expr(df, expr, streaming):
    """the same expression on a streamz DataFrame (streaming=True) or a pandas one"""
    f = prepare(df, expr)
    if expr["group"]:
        sel = {"xy": ["x", "y"], "x": "x", "y": "y", "z": "z", "all": None}[expr["base"]]
        kw = {"ddof": expr["ddof"]} if "ddof" in expr else {}
        if expr.get("late_grouper"):
            wide = f[[c for c in ("x", "y", "z") if c in f.columns]] * 1
            key = f.g if expr["group"] == "series" else f.g % 2
            return getattr(wide.groupby(key)[sel], expr["agg"])(**kw)
        if expr["group"] == "col":
            gb = f.groupby("g")
        elif expr["group"] == "series":
            gb = f.groupby(f.g)
        else:
            gb = f.groupby(f.g % 2)
        picked = gb if sel is None else gb[sel]
        if expr.get("decoy_selection") and sel is not None:
            # another selection taken from the same GroupBy object must not disturb this one
            other = "y" if sel == "x" else "x"
            _decoy = gb[other]   # noqa: F841
        return getattr(picked, expr["agg"])(**kw)
    if expr["base"] == "xy":
        sel = f[["x", "y"]]
    else:
        sel = getattr(f, expr["base"]) if expr.get("access") == "attr" else f[expr["base"]]
    if expr["arith"]:
        op, c = expr["arith"]
        sel = sel + c if op == "+" else (sel * c if op == "*" else (c - sel if op == "r-" else sel - c))
    a = expr["agg"]
    if a == "size":
        return sel.size if streaming else sel.size
    if a == "value_counts":
        return sel.value_counts()
    return getattr(sel, a)()


def prepare(df, expr):
    """assign + filter stage (elementwise, identical code for streamz and pandas frames)"""
    f = df
    si = expr.get("setitem")
    if si:
        if isinstance(f, pd.DataFrame):
            f = f.copy()
        else:
            f = type(f)(f.stream, example=f.example)   # a fresh streaming frame on the same stream
        if si == "overwrite":
            keep = f.x                  # noqa: F841  (stays alive: a stale accessor must not be reused)
            f["x"] = keep * 2
        elif si == "swap":
            f[["y", "x"]] = f[["x", "y"]] * 2
        else:
            f["y"] = 3
    if expr.get("assign") and expr["base"] == "z":
        op = expr["assign"]
        z = f.x + f.y if op == "+" else (f.x * f.y if op == "*" else f.x - f.y)
        f = f.assign(z=z)
    if expr["filter"] is not None:
        cond = f.x > expr["filter"]
        if expr.get("filter2"):
            c2 = f.y < expr["filter2"][1]
            cond = (cond & c2) if expr["filter2"][0] == "&" else (cond | c2)
        f = f[cond]
    return f


def reaching(df, expr):
    return prepare(df, expr)


def elementwise(df, expr):
    f = prepare(df, expr)
    sel = f[["x", "y"]] if expr["base"] == "xy" else f[expr["base"] if expr["base"] in ("x", "y", "z") else "y"]
    if expr["arith"]:
        op, c = expr["arith"]
        sel = sel + c if op == "+" else (sel * c if op == "*" else (c - sel if op == "r-" else sel - c))
    return sel


def execute(case):
    t, cuts, expr = case["table"], case["cuts"], case["expr"]
    bs = dc.batches(t, cuts)
    ex = dc.example_frame(t, case["example"])
    src = Stream()
    sdf = DataFrame(src, example=ex)
    v = []
    try:
        out = apply_expr(sdf, expr, True).stream.sink_to_list()
        ew = elementwise(sdf, expr).stream.sink_to_list()
        # a second streaming frame on the same source, wired last: it must see every batch as it
        # was emitted (no expression may write into the batch object it was handed)
        witness = DataFrame(src, example=ex).stream.sink_to_list()
    except Exception as e:
        return Result([("%s:cannot-build:%s" % (ID, type(e).__name__), "%s: %r" % (expr, e))],
                      nontrivial=True)
    name = (("groupby-" + expr["group"] + ".") if expr["group"] else "") + expr["agg"]
    for k, b in enumerate(bs):
        n0 = len(out)
        pristine = b.copy()
        try:
            src.emit(b)
        except Exception as e:
            v.append(("%s:%s:raises-%s" % (ID, name, type(e).__name__),
                      "batch %d (%d rows) of cuts %s: %r" % (k, len(b), cuts, e)))
            break
        if len(witness) == k + 1 and (list(witness[k].columns) != list(pristine.columns)
                                      or dc.same(witness[k], pristine)):
            v.append(("%s:batch-modified-in-place" % ID, "batch %d: another consumer of the same "
                      "source received columns %s, values %s; emitted was %s" % (
                          k, list(witness[k].columns), _short(witness[k]), _short(pristine))))
            break
        prefix = pd.concat(bs[:k + 1])
        reach = reaching(prefix, expr)
        # elementwise stage: per batch what pandas yields on that batch
        if len(ew) == k + 1:
            r = dc.same(ew[k], elementwise(b, expr))
            if r:
                v.append(("%s:elementwise" % ID, "batch %d: %s" % (k, r)))
                break
        else:
            v.append(("%s:elementwise:batch-count" % ID, "emitted %d after %d batches" % (len(ew), k + 1)))
            break
        if len(out) != n0 + 1:
            v.append(("%s:%s:no-emission" % (ID, name), "batch %d produced %d results" % (
                k, len(out) - n0)))
            break
        if len(reach) < 1:
            continue
        exp = apply_expr(prefix, expr, False)
        r = dc.same(out[-1], exp)
        if r:
            empty_before = any(len(reaching(x, expr)) == 0 for x in bs[:k + 1])
            cause = "after-empty-batch" if empty_before else \
                ("with-nan" if prefix.x.isna().any() else "wrong-value")
            v.append(("%s:%s:%s" % (ID, name, cause),
                      "after batch %d of split %s (rows %s): streamz %r, pandas %r: %s" % (
                          k, [len(x) for x in bs], t["rows"], _short(out[-1]), _short(exp), r)))
            break
    nonempty = [b for b in bs if len(b)]
    keys1 = set(bs[0].g) if len(bs[0]) else set()
    later_key = any(set(b.g) - keys1 for b in bs[1:]) if bs else False
    hasnan = any(r[0] is None for r in t["rows"])
    nt = len(nonempty) >= 2 and (len(nonempty) < len(bs) or later_key or hasnan)
    classes = ["agg:" + name, "example:" + case["example"]]
    if len(nonempty) < len(bs):
        classes.append("empty-batch")
    if bs and len(bs[0]) == 0:
        classes.append("empty-first-batch")
    if hasnan:
        classes.append("nan")
    if expr["filter"] is not None:
        classes.append("filter")
    if expr.get("setitem"):
        classes.append("setitem:" + expr["setitem"])
    return Result(v, nontrivial=nt, classes=classes)


def _short(x):
    if isinstance(x, (pd.Series, pd.DataFrame)):
        return x.to_dict()
    return x


PARTS = [Part("aggregations", case_strategy, execute, quick=800, thorough=4000),
         Part("coverage-guided:aggregations", None, execute, quick=0, thorough=0, shards=1,
              exhaustive=runner_fuzz_part(ID, "aggregations"))]
