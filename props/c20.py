"""C20 — a Dask-backed pipeline is observationally equivalent to the local one."""
import atexit
import os
import time

from hypothesis import strategies as st

from streamz import Stream
from streamz.core import RefCounter

from harness.runner import Part, Result, HarnessError
from harness.vloop import workdir
from props.c20funcs import FUN

ID = "C20"
RULE = ("Segments over the node types DaskStream re-implements (map, starmap, accumulate with / "
        "without start, returns_state (pair as tuple or list) and with_state, zip of two scattered inputs, buffer, partition, "
        "sliding_window, union) wrapped in scatter() ... gather(), 1-2 entries, <= 12 integer (in a "
        "quarter of the single-entry cases: tuple / list / frozenset / range, also empty) "
        "inputs, each carrying a RefCounter; task functions sleep a value-dependent 0-16 ms so "
        "the in-process cluster (Client(processes=False), 4 threads) finishes tasks out of "
        "submission order. Differential oracle: the sink sequence equals that of the same spec "
        "built locally (plain Stream), and every input's RefCounter count at quiescence equals "
        "the local run's. Real time: completion is awaited with a generous bound; hitting it is "
        "inconclusive (exit 2), never a violation. Non-trivial: >= 3 inputs and >= 2 tasks "
        "submitted per input or a stateful/joining node in the segment.")
ASSUMPTIONS = ["the cluster schedule is perturbed (value-dependent sleeps), not owned",
               "one in-process dask client per checking process"]

OPS = ["map", "map", "accumulate", "starmap_pair", "zip2", "buffer", "partition",
       "sliding_window", "union"]
_client = [None]


def client():
    if _client[0] is None:
        import dask
        from distributed import Client
        dask.config.set({"temporary-directory": workdir(), "distributed.admin.tick.limit": "60s"})
        c = Client(processes=False, n_workers=1, threads_per_worker=4, dashboard_address=None,
                   silence_logs=50)
        _client[0] = c
        atexit.register(lambda: c.close())
    return _client[0]


@st.composite
def op_list(draw, kind, two, allow_join, n_max, allow_buffer=True):
    ops = []
    for _ in range(draw(st.integers(0, n_max))):
        cands = ["map", "accumulate", "union"] + (["buffer"] if allow_buffer else [])
        if kind == "int":
            cands += ["partition", "sliding_window", "forkzip"]
            if two and allow_join and not any(o[0] in ("zip2", "union2") for o in ops):
                cands += ["zip2", "zip2", "union2", "union2"]
        else:
            cands += ["map_tsum", "map_tsum"]
            if kind == "tuple":
                cands += ["partition"]      # tuples of tuples (of futures, in the Dask run)
            if kind == "pair":
                cands += ["starmap_pair"] * 4
            elif ops and (ops[-1][:2] == ["partition", 2] or ops[-1][:3] == ["sliding_window", 2, False]):
                cands += ["starmap_pair"] * 3   # tuples of exactly two elements
        op = draw(st.sampled_from(cands))
        if op == "map":
            ops.append(["map", draw(st.sampled_from(["inc", "dbl"])) if kind == "int" else "tsum"])
            kind = "int"
        elif op == "map_tsum":
            ops.append(["map", "tsum"])
            kind = "int"
        elif op == "accumulate":
            rs = draw(st.booleans())
            # start None: the first element becomes the state and is passed on as it is
            # with_state=True: the node emits (state, result) pairs; func may hand its pair back
            # as any two-element sequence (a list here), the emitted pair is a tuple all the same
            ws = draw(st.integers(0, 2)) == 0
            fname = ("acc_rs_list" if ws and draw(st.booleans()) else "acc_rs") if rs else "acc_add"
            ops.append(["accumulate", fname,
                        draw(st.sampled_from([0, 5, None, None] if kind == "int" else [0, 5])), rs, ws])
            kind = "pair" if ws else "int"
        elif op == "buffer":
            ops.append(["buffer", draw(st.integers(1, 8))])
        elif op == "union":
            ops.append(["union"])
        elif op == "partition":
            ops.append(["partition", draw(st.integers(1, 3))])
            kind = "tuple"
        elif op == "sliding_window":
            ops.append(["sliding_window", draw(st.integers(1, 3)), draw(st.booleans())])
            kind = "tuple"
        elif op == "zip2":
            ops.append(["zip2"])
            kind = "pair"
        elif op == "forkzip":
            # two branches of the same node, mapped with two different functions of the same
            # name, zipped again
            ops.append(["forkzip"])
            kind = "pair"
        elif op == "union2":
            ops.append(["union2"])
        elif op == "starmap_pair":
            ops.append(["starmap", "add"])
            kind = "int"
    return ops, kind


@st.composite
def case_strategy(draw, tier="quick"):
    two = draw(st.booleans())
    # work on the first input only, then (optionally) the join with the second, scattered but
    # otherwise untouched, input, then common work; often a buffer right before gather()
    # (no buffer before the join: the interleaving of a buffered branch with a direct one is
    # schedule-dependent in the local pipeline as well)
    pre, kind = draw(op_list("int", two, False, 2, allow_buffer=not two))
    ops = list(pre)
    if two:
        if kind != "int":
            ops.append(["map", "tsum"])
            kind = "int"
        j = draw(st.sampled_from(["zip2", "union2", "union2"]))
        ops.append([j])
        kind = "pair" if j == "zip2" else kind
    post, kind = draw(op_list(kind, two, False, 2))
    ops += post
    if not ops:
        ops = [["map", "inc"]]
    if draw(st.integers(0, 2)) == 0 and ops[-1][0] != "buffer":
        ops.append(["buffer", draw(st.integers(1, 8))])
    # keyword arguments for the user functions; 'priority' and 'retries' are also parameter
    # names of distributed.Client.submit
    for op in ops:
        if op[0] in ("map", "starmap", "accumulate") and \
                draw(st.integers(0, 1 if op[0] == "starmap" else 2)) == 0:
            names = draw(st.lists(st.sampled_from(["z", "z", "priority", "w", "retries"]),
                                  min_size=1, max_size=2, unique=True))
            op.append({"kw": {n: draw(st.integers(1, 3)) * (10 if n == "z" else 100)
                              for n in names}})
    # (a zip input that runs more than maxsize=10 elements ahead of the other blocks its producer
    # for good, in the local pipeline as well: at most 10 inputs when there is a zip)
    inputs = draw(st.lists(st.tuples(st.integers(0, 1 if two else 0), st.integers(0, 9)),
                           min_size=2, max_size=10 if any(o[0] == "zip2" for o in ops) else 12))
    # what the elements are when they reach scatter(): ints, or small containers built from the
    # int (tuple / list / frozenset / range of v mod 4 items, so also empty ones), summed by a
    # first map(tsum)
    shape = "int"
    if not two and draw(st.integers(0, 3)) == 0:
        shape = draw(st.sampled_from(["tuple", "list", "frozenset", "range"]))
        ops = [["map", "tsum"]] + ops
    post = draw(st.lists(st.sampled_from(["map", "sliding_window", "zipself"]), max_size=2)) \
        if draw(st.integers(0, 2)) == 0 else []
    return {"two": two, "ops": ops, "inputs": [list(i) for i in inputs], "shape": shape,
            "post": post}


def shaped(shape, v):
    if shape == "int":
        return v
    items = range(v % 4)
    return {"tuple": tuple, "list": list, "frozenset": frozenset, "range": lambda r: r}[shape](items)


def build(case, dask):
    a = Stream()
    b = Stream() if case["two"] else None
    sa = a.scatter() if dask else a
    sb = (b.scatter() if dask else b) if b is not None else None
    node = sa
    used_b = False
    for op in case["ops"]:
        k = op[0]
        ukw = op[-1]["kw"] if isinstance(op[-1], dict) else {}
        if k == "map":
            node = node.map(FUN[op[1]], **ukw)
        elif k == "starmap":
            node = node.starmap(FUN[op[1]], **ukw)
        elif k == "accumulate":
            kw = {"start": op[2]} if op[2] is not None else {}
            if op[3]:
                kw["returns_state"] = True
            if len(op) > 4 and op[4] is True:
                kw["with_state"] = True
            kw.update(ukw)
            node = node.accumulate(FUN[op[1]], **kw)
        elif k == "buffer":
            node = node.buffer(op[1])
        elif k == "union":
            node = node.union()
        elif k == "partition":
            node = node.partition(op[1])
        elif k == "sliding_window":
            node = node.sliding_window(op[1], return_partial=op[2])
        elif k == "zip2":
            node = node.zip(sb)
            used_b = True
        elif k == "union2":
            node = node.union(sb)
            used_b = True
        elif k == "forkzip":
            node = node.map(FUN["twin_a"]).zip(node.map(FUN["twin_b"]))
    out = []
    timeline = []   # ("out", k) / ("cb", i) in the order they happened
    if dask:
        node = node.gather()
    # local nodes after gather() (in the local run: simply further nodes): what gather() returns
    # is an ordinary local node again
    for pk in case.get("post", []):
        if pk == "map":
            node = node.map(lambda x: ("post", x))
        elif pk == "sliding_window":
            node = node.sliding_window(2, return_partial=True)
        elif pk == "zipself":
            node = node.zip(node.map(lambda x: 1))

    def deliver(x):
        out.append(x)
        timeline.append(("out", len(out)))
    sink = node.sink(deliver)
    return a, (b if used_b else None), out, sink, timeline


def run(case, dask):
    a, b, out, sink, timeline = build(case, dask)
    rcs = []
    for i, (ent, v) in enumerate(case["inputs"]):
        tgt = b if (ent == 1 and b is not None) else a
        cb = (lambda i=i: timeline.append(("cb", i)))
        rc = RefCounter(cb=cb, loop=tgt.loop if tgt.loop is not None else _ImmediateLoop())
        rcs.append(rc)
        tgt.emit(shaped(case.get("shape", "int"), v), metadata=[{"ref": rc}])
    run.timeline = timeline
    return out, rcs, sink


class _ImmediateLoop:
    def add_callback(self, cb, *a, **k):
        cb(*a, **k)


def outs_before_cb(timeline):
    """{input index: number of results delivered before its completion callback first ran}"""
    res, n = {}, 0
    for kind, k in list(timeline):
        if kind == "out":
            n = k
        elif k not in res:
            res[k] = n
    return res


def loop_responds(seconds=20.0):
    """does the client's event loop (the one the Dask-backed pipeline runs on) still take
    callbacks?  A loop that does not run a trivial callback for this long is stuck in a blocking
    call; nothing that needs it (client().processing() included) would ever return."""
    import threading
    ev = threading.Event()
    client().loop.add_callback(ev.set)
    return ev.wait(seconds)


def settle(out, expect_n, rcs, expect_counts, timeout=30.0):
    """wait for the results (generous bound), then briefly for the counters to settle"""
    t0 = time.time()
    while time.time() - t0 < timeout and len(out) < expect_n:
        time.sleep(0.005)
    if len(out) < expect_n:
        return False
    t1 = time.time()
    while time.time() - t1 < 1.5:
        if [r.count for r in rcs] == expect_counts:
            return True
        time.sleep(0.005)
    return True


def execute(case):
    client()
    # local reference run (no loop needed unless buffer/partition: those bind the dask client's
    # loop too, which is fine: emit blocks until done)
    lout, lrcs, lsink = run(case, dask=False)
    ltimeline = run.timeline
    # local run may involve buffer (asynchronous hand-over): wait for it to drain
    t0 = time.time()
    last = (-1, None)
    while time.time() - t0 < 20:
        cur = (len(lout), [r.count for r in lrcs])
        if cur == last and time.time() - t0 > 0.05:
            break
        last = cur
        time.sleep(0.02)
    expect = list(lout)
    expect_counts = [r.count for r in lrcs]
    import threading
    box = {}

    def worker():
        try:
            box["r"] = run(case, dask=True)
            box["t"] = run.timeline
        except Exception as e:   # noqa: BLE001
            box["e"] = e
    th = threading.Thread(target=worker, daemon=True)
    th.start()
    th.join(45)
    if th.is_alive() and not loop_responds():
        return Result([("%s:dask-run-blocks-the-event-loop" % ID, "ops %s inputs %s: emit has not "
                        "returned after 45 s and the event loop of the pipeline has not run a "
                        "callback for a further 20 s (a blocking call on the loop thread); the "
                        "local pipeline completes" % (case["ops"], case["inputs"]))],
                      nontrivial=True, abort=True)
    if th.is_alive():
        # a blocking emit that never returns: sound only if the cluster has nothing to do
        idle = 0
        for _ in range(200):
            idle = 0 if any(client().processing().values()) else idle + 1
            if idle >= 40 or not th.is_alive():
                break
            time.sleep(0.025)
        if th.is_alive():
            if idle >= 40:
                return Result([("%s:dask-run-blocks" % ID, "ops %s inputs %s: a blocking emit "
                                "never returned although the cluster is idle (the local "
                                "pipeline completes)" % (case["ops"], case["inputs"]))],
                              nontrivial=True)
            raise HarnessError("C20: emit still blocked with a busy cluster (inconclusive)")
    if "e" in box:
        e = box["e"]
        lsink.destroy()
        return Result([("%s:dask-run-raises-%s" % (ID, type(e).__name__),
                        "ops %s inputs %s: the local pipeline ran fine, the Dask-backed one "
                        "raised %r" % (case["ops"], case["inputs"], e))], nontrivial=True)
    dout, drcs, dsink = box["r"]
    ok = settle(dout, len(expect), drcs, expect_counts)
    time.sleep(0.02)
    v = []
    if list(dout) != expect:
        if not ok and len(dout) < len(expect) and list(dout) == expect[:len(dout)]:
            # slowness or loss?  "lost" is a sound verdict only when the cluster has nothing
            # left to run; otherwise the run is inconclusive (never a violation)
            idle = 0
            t0 = time.time()
            if not loop_responds():
                return Result([("%s:dask-run-blocks-the-event-loop" % ID, "ops %s inputs %s: dask "
                                "delivered %s of %s and the event loop of the pipeline has not run "
                                "a callback for 20 s (a blocking call on the loop thread)" % (
                                    case["ops"], case["inputs"], list(dout), expect))],
                              nontrivial=True, abort=True)
            while time.time() - t0 < 60 and len(dout) < len(expect):
                busy = any(client().processing().values())
                idle = 0 if busy else idle + 1
                if idle >= 40:
                    break
                time.sleep(0.025)
            if len(dout) < len(expect):
                if idle >= 40:
                    v.append(("%s:results-missing" % ID, "ops %s inputs %s: cluster idle, dask "
                              "delivered %s of %s" % (case["ops"], case["inputs"], list(dout),
                                                      expect)))
                else:
                    raise HarnessError("C20: cluster still busy after 90 s (inconclusive)")
        if list(dout) != expect and not v:
            what = "reordered" if sorted(map(repr, dout)) == sorted(map(repr, expect)) else "differ"
            v.append(("%s:results-%s" % (ID, what), "ops %s inputs %s: dask %s local %s" % (
                case["ops"], case["inputs"], list(dout), expect)))
    elif not any(o[0] == "buffer" for o in case["ops"]) and any(
            d < l for i, l in outs_before_cb(ltimeline).items()
            for d in [outs_before_cb(box.get("t", [])).get(i, 10 ** 9)]):
        lo, do = outs_before_cb(ltimeline), outs_before_cb(box.get("t", []))
        bad = [(i, do[i], lo[i]) for i in lo if i in do and do[i] < lo[i]]
        v.append(("%s:completion-callback-earlier-than-local" % ID,
                  "ops %s inputs %s: (input, results delivered before its callback: dask, local) "
                  "%s" % (case["ops"], case["inputs"], bad[:5])))
    elif all(o[0] in ("map", "accumulate", "buffer", "union") for o in case["ops"]) and any(
            n_out < i + 1 for i, n_out in outs_before_cb(box.get("t", [])).items()):
        # one-to-one segment: the k-th result derives from the k-th input, so input k's
        # completion callback must not run before k+1 results were delivered
        do = outs_before_cb(box.get("t", []))
        bad = [(i, n_out) for i, n_out in do.items() if n_out < i + 1]
        v.append(("%s:completion-callback-before-result" % ID,
                  "ops %s inputs %s: (input, results delivered when its callback ran) %s" % (
                      case["ops"], case["inputs"], bad[:5])))
    elif [r.count for r in drcs] != expect_counts:
        v.append(("%s:refcounts-differ" % ID, "ops %s inputs %s: dask counts %s local counts %s" % (
            case["ops"], case["inputs"], [r.count for r in drcs], expect_counts)))
    for s in (lsink, dsink):
        try:
            s.destroy()
        except Exception:
            pass
    kinds = {o[0] for o in case["ops"]}
    n_tasks = sum(1 for o in case["ops"] if o[0] in ("map", "starmap", "accumulate"))
    nt = len(case["inputs"]) >= 3 and (n_tasks >= 2 or bool(kinds & {"accumulate", "zip2", "partition",
                                                                    "sliding_window", "buffer"}))
    return Result(v, nontrivial=nt, classes=["op:" + k for k in kinds] +
                  (["two-entries"] if case["two"] else []) +
                  (["accumulate:with_state"] if any(o[0] == "accumulate" and len(o) > 4 and o[4] is True
                                                    for o in case["ops"]) else []) +
                  ["elements:" + case.get("shape", "int")])


PARTS = [Part("segments", case_strategy, execute, quick=120, thorough=500, shards=8,
              quick_shards=6, shrink_quick=False)]
