"""C02 — asynchronous timing never changes what lossless pipelines deliver."""
from hypothesis import strategies as st

from harness import specs, schedule, local
from harness.runner import Part, Result

ID = "C02"
RULE = ("Hypothesis generates a typed pipeline containing >= 1 lossless asynchronous node "
        "(buffer, delay, rate_limit, map_async(parallelism 1-3), timed_window, partition with "
        "timeout, plus zip/union/any synchronous node), sinks whose consumers are sync / return "
        "a Tornado future / are native coroutines, and a schedule: an action list interleaving "
        "emits, awaiting producers, consumer completions and job completions in any order, and "
        "virtual-clock advances; a finish phase completes everything. Oracle (local, "
        "schedule-independent): every node's observed output is the documented function of its "
        "observed input, each element exactly once, in order (batching nodes: concatenation). "
        "Non-trivial: the run contains an out-of-order completion, or an arrival at an async node "
        "that is blocked on downstream / has queued elements, or a timer firing between two "
        "arrivals. Distinct = SHA-1 of the case.")
ASSUMPTIONS = ["interleavings are those expressible at event-loop granularity with "
               "harness-resolved futures on a harness-owned loop and virtual clock",
               "a producer blocked forever by a starved zip input is legitimate back-pressure"]

KINDS = ["map", "filter", "accumulate", "flatten", "unique", "sliding_window", "partition",
         "union", "zip", "pluck", "starmap", "sink",
         "buffer", "delay", "rate_limit", "map_async", "timed_window", "partition_t",
         "buffer", "delay", "rate_limit", "map_async", "timed_window", "partition_t"]
ASYNC = ["buffer", "delay", "rate_limit", "map_async", "timed_window", "partition_t"]


@st.composite
def with_sinks(draw, spec, max_new=3):
    """attach consumers to (some) leaves so that there is at least one sink"""
    nodes = spec["nodes"]
    n = len(nodes)
    has_child = [any(i in nd["u"] for nd in nodes) for i in range(n)]
    leaves = [i for i in range(n) if not has_child[i] and nodes[i]["k"] != "sink"]
    have = any(nd["k"] == "sink" for nd in nodes)
    chosen = []
    for i in leaves[:max_new]:
        if not have or draw(st.booleans()):
            chosen.append(i)
            have = True
    for i in chosen:
        nodes.append({"k": "sink", "u": [i], "p": {}, "t": None})
    return spec


@st.composite
def case_strategy(draw, tier="quick", kinds=KINDS, first=ASYNC, max_nodes=6, max_actions=40):
    spec = draw(specs.pipeline_spec(kinds=kinds, max_nodes=max_nodes, max_entries=2,
                                    feedback=False, force_first=draw(st.sampled_from(first))))
    spec = draw(with_sinks(spec))
    sinks = [i for i, nd in enumerate(spec["nodes"]) if nd["k"] == "sink"]
    cm = {str(i): draw(st.sampled_from(["sync", "fut", "coro", "fut", "aw"])) for i in sinks}
    acts = draw(schedule.actions_strategy(spec, max_actions=max_actions))
    return {"spec": spec, "cmodes": cm, "actions": acts}


def classify(spec, run):
    """non-triviality classes from the event log"""
    cls = set()
    log = run.log.events
    # out-of-order completion: a consumer/job finished while an earlier-started one of the same
    # consumer/job-node was still pending
    started = {}
    finished = {}
    for ev in log:
        if ev[0] in ("cs", "js"):
            started.setdefault((ev[0][0], ev[1]), []).append(ev[2])
        elif ev[0] in ("cf", "jf"):
            key = (ev[0][0], ev[1])
            fin = finished.setdefault(key, set())
            earlier = [x for x in started.get(key, []) if x < ev[2] and x not in fin]
            if earlier:
                cls.add("out-of-order-completion")
            fin.add(ev[2])
    inputs, outputs = local.node_io(spec, run.log)
    for i, nd in enumerate(spec["nodes"]):
        if nd["k"] in ASYNC + ["latest", "timed_window_unique"]:
            # arrival while the node still holds earlier arrivals (queued or blocked downstream)
            outs_idx = [o[3] for o in outputs[i]]
            arr = [a for a in inputs[i] if a[0] != "flush"]
            for n_arr, a in enumerate(arr):
                emitted_before = sum(1 for oi in outs_idx if oi < a[4])
                if nd["k"] in ("timed_window", "partition_t", "timed_window_unique"):
                    continue
                if n_arr - emitted_before >= 1:
                    cls.add("arrival-while-node-busy")
                    break
    # a timer fired between two arrivals
    t_emit = [ev[3] for ev in log if ev[0] == "emit"]
    if len(set(t_emit)) >= 2:
        cls.add("timer-between-arrivals")
    return cls


def ancestors(spec, i):
    seen, stack = set(), [i]
    while stack:
        j = stack.pop()
        for u in spec["nodes"][j]["u"]:
            if u not in seen:
                seen.add(u)
                stack.append(u)
    return seen


def descendants(spec, i):
    n = len(spec["nodes"])
    seen, stack = set(), [i]
    while stack:
        j = stack.pop()
        for c in range(n):
            if j in spec["nodes"][c]["u"] and c not in seen:
                seen.add(c)
                stack.append(c)
    return seen


def oracle(spec, run, pid=ID, failed_jobs=()):
    v = []
    inputs, outputs = local.node_io(spec, run.log)
    for i, nd in enumerate(spec["nodes"]):
        if nd["k"] == "entry":
            continue
        if nd["k"] == "map_async" and failed_jobs:
            # jobs are created in arrival order: the k-th arrival is job k; failed ones emit nothing
            bad = {inv for (jid, inv) in failed_jobs if jid == i}
            inputs[i] = [a for k_, a in enumerate(inputs[i]) if k_ not in bad]
        complete = not local.has_zip_below(spec, i) and nd["k"] != "zip"
        # a tick source (timed_window emits a batch every interval for ever) feeding a slower
        # delay/rate_limit builds an unbounded backlog: the bounded finish phase cannot drain it
        chain = {spec["nodes"][a]["k"] for a in ancestors(spec, i)} | {nd["k"]}
        below = {spec["nodes"][d]["k"] for d in descendants(spec, i)}
        if chain & {"timed_window", "timed_window_unique"} and \
                (chain | below) & {"delay", "rate_limit"}:
            complete = False   # (a slow node below holds this one back through back-pressure)
        v += local.check_node(pid, spec, i, inputs[i], outputs[i], complete=complete)
    for idx, rid in run.log.mutated():
        v.append(("%s:%s:batch-mutated-after-emission" % (pid, spec["nodes"][rid]["k"]),
                  "batch emitted by node %d at log[%d] changed later" % (rid, idx)))
        break
    # each consumer invocation finished exactly once is the harness's doing; exceptions carried
    # by emit futures are not expected here (no faults injected)
    for r in run.emits:
        if r["exc"] is not None:
            v.append(("%s:emit-raised-%s" % (pid, type(r["exc"]).__name__), repr(r["exc"])[:300]))
    return v


def execute(case):
    spec = case["spec"]
    cm = {int(k): m for k, m in case["cmodes"].items()}
    jf = {int(k): set(v_) for k, v_ in case.get("jobfaults", {}).items()}
    run = schedule.execute(case, consumer_modes=cm, faults=jf)
    v = oracle(spec, run, failed_jobs={(e[1], e[2]) for e in run.log.events if e[0] == "jx"})
    cls = classify(spec, run)
    classes = sorted(cls) + ["kind:" + k for k in {nd["k"] for nd in spec["nodes"]}] + \
        ["consumer:" + m for m in set(cm.values())]
    if run.drain_bound_hit:
        classes.append("drain-bound-hit")
    return Result(v, nontrivial=bool(cls), classes=classes)


@st.composite
def map_async_case(draw, tier="quick"):
    """focused shape: 1-3 producers -> union -> map_async(parallelism 1-2) -> consumer; long
    schedules of emits (awaited and not) and job completions in any order: many elements wait
    for a work slot while others arrive"""
    n_ent = draw(st.integers(1, 3))
    nodes = [{"k": "entry", "u": [], "p": {}, "t": "E"} for _ in range(n_ent)]
    src = n_ent - 1
    if n_ent > 1:
        nodes.append({"k": "union", "u": list(range(n_ent)), "p": {}, "t": "E"})
        src = len(nodes) - 1
    nodes.append({"k": "map_async", "u": [src], "p": {"f": "inc", "par": draw(st.integers(1, 2))},
                  "t": "E"})
    nodes.append({"k": "sink", "u": [len(nodes) - 1], "p": {}, "t": None})
    spec = {"nodes": nodes, "fb": None}
    emit = st.tuples(st.sampled_from(["emit", "pemit", "pemit"]), st.integers(0, n_ent - 1),
                     st.integers(0, 5))
    job = st.tuples(st.just("job"), st.just(0), st.integers(0, 3))
    fin = st.tuples(st.just("fin"), st.just(0), st.integers(0, 2))
    turn = st.tuples(st.just("turn"), st.integers(1, 3))
    one = st.one_of(emit, emit, job, job, fin, turn).map(lambda a: [list(a)])
    burst = st.lists(emit, min_size=3, max_size=5).map(lambda l: [list(a) for a in l])
    # a completion, a few loop turns, then an arrival: everything within one drain
    race = st.tuples(st.integers(0, 3), st.integers(1, 3), st.integers(0, n_ent - 1),
                     st.integers(0, 5)).map(
        lambda t: [["job", 0, t[0], "!"], ["turn", t[1]], ["emit", t[2], t[3]]])
    steps = draw(st.lists(st.one_of(one, one, one, burst, race, race), min_size=4, max_size=20))
    acts = [a for stp in steps for a in stp][:60]
    case = {"spec": spec, "cmodes": {str(len(nodes) - 1): draw(st.sampled_from(["sync", "fut"]))},
            "actions": acts}
    if draw(st.integers(0, 2)) == 0:
        # some mapped coroutines fail (inside the job): map_async logs and goes on; every other
        # element must still come out exactly once, in order
        case["jobfaults"] = {str(len(nodes) - 2): sorted(draw(st.sets(
            st.sampled_from([0, 2, 4, 6, 8]), min_size=1, max_size=2)))}
    return case


@st.composite
def one_to_many_case(draw, tier="quick"):
    """a producer that emits several elements per upstream element (flatten, branches re-joined by
    union, both at once) right above native-coroutine consumers: the awaitables one emission
    returns must be started in emission order"""
    nodes = [{"k": "entry", "u": [], "p": {}, "t": "E"}]
    shape = draw(st.sampled_from(["flatten", "flatten", "union", "both"]))
    if shape in ("flatten", "both"):
        if draw(st.booleans()):
            n = draw(st.integers(2, 3))
            partial = draw(st.booleans())
            nodes.append({"k": "sliding_window", "u": [0], "p": {"n": n, "partial": partial},
                          "t": ["L", "E"] if partial else ["H", ["E"] * n]})
        else:
            nodes.append({"k": "map", "u": [0], "p": {"f": "pair"}, "t": ["H", ["E", "E"]]})
        nodes.append({"k": "flatten", "u": [len(nodes) - 1], "p": {}, "t": "E"})
    top = len(nodes) - 1
    if shape in ("union", "both"):
        a = len(nodes)
        nodes.append({"k": "map", "u": [top], "p": {"f": "inc"}, "t": "E"})
        nodes.append({"k": "map", "u": [top], "p": {"f": "dbl"}, "t": "E"})
        ups = [a, a + 1] + ([top] if draw(st.booleans()) else [])
        nodes.append({"k": "union", "u": ups, "p": {}, "t": "E"})
        top = len(nodes) - 1
    for _ in range(draw(st.integers(0, 2))):     # levels of plain forwarding
        nodes.append({"k": "map", "u": [top], "p": {"f": "inc"}, "t": "E"})
        top = len(nodes) - 1
    nodes.append({"k": "sink", "u": [top], "p": {}, "t": None})
    cm = {str(len(nodes) - 1): draw(st.sampled_from(["coro", "coro", "fut"]))}
    if draw(st.booleans()):
        nodes.append({"k": "sink", "u": [top], "p": {}, "t": None})
        cm[str(len(nodes) - 1)] = draw(st.sampled_from(["coro", "sync"]))
    spec = {"nodes": nodes, "fb": None}
    acts = draw(schedule.actions_strategy(spec, max_actions=20))
    return {"spec": spec, "cmodes": cm, "actions": acts}


@st.composite
def small_buffer_case(draw, tier="quick"):
    """a buffer of 1-2 elements, an asynchronous consumer and bursts of emissions that are not
    awaited one by one: every element exactly once, in emission order"""
    nodes = [{"k": "entry", "u": [], "p": {}, "t": "E"},
             {"k": "buffer", "u": [0], "p": {"n": draw(st.integers(1, 2))}, "t": "E"}]
    if draw(st.booleans()):
        nodes.append({"k": "map", "u": [1], "p": {"f": "inc"}, "t": "E"})
    nodes.append({"k": "sink", "u": [len(nodes) - 1], "p": {}, "t": None})
    spec = {"nodes": nodes, "fb": None}
    cm = {str(len(nodes) - 1): draw(st.sampled_from(["coro", "fut", "aw"]))}
    emit = st.tuples(st.sampled_from(["emit", "emit", "pemit"]), st.just(0), st.integers(0, 5))
    fin = st.tuples(st.just("fin"), st.just(0), st.integers(0, 2))
    turn = st.tuples(st.just("turn"), st.integers(1, 3))
    acts = [list(a) for a in draw(st.lists(st.one_of(emit, emit, emit, fin, turn), min_size=8,
                                           max_size=30))]
    marks = draw(st.lists(st.integers(0, 2), min_size=len(acts), max_size=len(acts)))
    # ("!": no drain afterwards; with ["turn", k] this places an arrival between the turn in which
    # a slot is freed and the turn in which a waiting producer would take it)
    acts = [a + ["!"] if m == 0 and a[0] in ("emit", "fin") else a for a, m in zip(acts, marks)]
    return {"spec": spec, "cmodes": cm, "actions": acts}


PARTS = [Part("schedules", case_strategy, execute, quick=1600, thorough=8000),
         Part("small-buffer-bursts", small_buffer_case, execute, quick=300, thorough=3000),
         Part("one-to-many-above-coroutines", one_to_many_case, execute, quick=300, thorough=3000),
         Part("map_async-focus", map_async_case, execute, quick=800, thorough=6000)]
