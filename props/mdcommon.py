"""Shared by C04/C05/C10: pipelines over every node kind, schedules, metadata plans, faults."""
from hypothesis import strategies as st

from harness import specs, schedule
from props import c02

ALL_KINDS = ["map", "filter", "accumulate", "flatten", "unique", "sliding_window", "partition",
             "partition_unique", "union", "zip", "combine_latest", "zip_latest", "pluck",
             "starmap", "slice", "collect", "sink", "sink",
             "buffer", "delay", "rate_limit", "map_async", "timed_window", "partition_t",
             "timed_window_unique", "latest"]
HOLDERS = ["buffer", "delay", "rate_limit", "map_async", "timed_window", "partition_t",
           "timed_window_unique", "latest", "sliding_window", "partition", "partition_unique",
           "zip", "combine_latest", "zip_latest", "collect", "flatten", "unique", "filter"]


@st.composite
def md_case(draw, tier="quick", kinds=ALL_KINDS, first=HOLDERS, faults=False, max_nodes=5,
            max_actions=30, modes=("sync", "fut", "coro", "fut", "aw"), max_entries=2, none_ok=False,
            md_values=(1, 1, 1, 2, 3, 0, 4), min_actions=1):
    spec = draw(specs.pipeline_spec(kinds=kinds, max_nodes=max_nodes, max_entries=max_entries,
                                    feedback=False, force_first=draw(st.sampled_from(first))))
    spec = draw(c02.with_sinks(spec))
    sinks = [i for i, nd in enumerate(spec["nodes"]) if nd["k"] == "sink"]
    cm = {str(i): draw(st.sampled_from(list(modes))) for i in sinks}
    acts = draw(schedule.actions_strategy(spec, max_actions=max_actions, none_ok=none_ok,
                                          min_actions=min_actions))
    md = draw(st.lists(st.sampled_from(list(md_values)), min_size=1, max_size=8))
    case = {"spec": spec, "cmodes": cm, "actions": acts, "md": md}
    if faults and draw(st.integers(0, 2)) == 0:
        fn_nodes = [i for i, nd in enumerate(spec["nodes"])
                    if nd["k"] in ("map", "starmap", "filter", "accumulate", "sink", "map_async")]
        if fn_nodes:
            chosen = draw(st.lists(st.sampled_from(fn_nodes), min_size=1, max_size=2, unique=True))
            case["faults"] = {str(i): sorted(draw(st.sets(st.integers(0, 4), min_size=1, max_size=2)))
                              for i in chosen}
    return case


def run_case(case, sample=None):
    cm = {int(k): m for k, m in case["cmodes"].items()}
    faults = {int(k): set(v) for k, v in case.get("faults", {}).items()}
    return schedule.execute(case, consumer_modes=cm, faults=faults, md_plan=case["md"],
                            sample=sample)
