"""C08 — time windows conserve elements and honour their deadline."""
from hypothesis import strategies as st

from harness import schedule
from harness.elements import FUNCS, prov
from harness.runner import Part, Result

ID = "C08"
RULE = ("Pipeline entry -> timed_window(i) | partition(n, timeout[, key]) | "
        "timed_window_unique(i, key, keep) -> consumer whose busy periods are generated (the "
        "harness finishes its future); arrivals on a 1/8 s virtual grid placed before, at and "
        "after tick/timeout instants, in bursts, and while the node is blocked emitting. "
        "Oracle: every element is emitted in exactly one batch (unique: exactly the "
        "keep-first/keep-last survivors of each window, in the documented order), batches "
        "preserve arrival order, len(partition) <= n, no empty partition, a partial partition is "
        "emitted only at first-member-arrival + timeout (a size flush cancels the timer: no "
        "spurious partial), and t_emit(x) <= t_arrive(x) + interval + time in "
        "[t_arrive, t_emit] during which the consumer was busy. Non-trivial: an arrival "
        "coincides with a tick/timeout instant, or arrives while the consumer is busy, or a size "
        "flush precedes a pending timer.")
ASSUMPTIONS = ["virtual clock, exact grid arithmetic", "consumer directly downstream of the node"]


@st.composite
def case_strategy(draw, tier="quick"):
    kind = draw(st.sampled_from(["timed_window", "partition_t", "partition_t",
                                 "timed_window_unique"]))
    iv = draw(st.sampled_from([0.5, 1.0, 2.0]))
    p = {}
    if kind == "timed_window":
        p = {"i": iv}
        t = ["LL", "E"]
    elif kind == "partition_t":
        # timeout=0 is legal: a partial partition goes out on the next turn of the loop
        to = draw(st.sampled_from([iv, iv, iv, 0]))
        p = {"n": draw(st.integers(1, 4)), "timeout": to,
             "key": draw(st.sampled_from([None, None, "key_mod2", "key_self"]))}
        t = ["L", "E"]
    else:
        p = {"i": iv, "key": draw(st.sampled_from(["key_self", "key_mod2", "key_mod3"])),
             "keep": draw(st.sampled_from(["first", "last"]))}
        t = ["L", "E"]
    nodes = [{"k": "entry", "u": [], "p": {}, "t": "E"}]
    if kind in ("partition_t", "timed_window_unique") and draw(st.integers(0, 3)) == 0:
        # elements are pairs (x mod 2, x) and the key is given as an index (0: the first component)
        nodes.append({"k": "map", "u": [0], "p": {"f": "kv"}, "t": ["H", ["E", "E"]]})
        p["key"] = "idx0"
    nodes.append({"k": kind, "u": [len(nodes) - 1], "p": p, "t": t})
    nodes.append({"k": "sink", "u": [len(nodes) - 1], "p": {}, "t": None})
    mode = draw(st.sampled_from(["sync", "fut", "fut", "coro"]))
    emit = st.tuples(st.just("emit"), st.just(0), st.integers(0, 5))
    adv = st.one_of(st.tuples(st.just("adv"), st.just("next")),
                    st.tuples(st.just("adv"), st.sampled_from([0.125, 0.25, iv / 2, iv, iv - 0.125,
                                                               iv + 0.125, 2 * iv])))
    fin = st.tuples(st.just("fin"), st.just(0), st.just(0))
    lo = draw(st.sampled_from([2, 6, 12]))
    acts = draw(st.lists(st.one_of(emit, emit, emit, adv, adv, fin), min_size=lo, max_size=40))
    acts = [list(a) for a in acts]
    if draw(st.integers(0, 2)) == 0:
        # bursts: "!" = the next action follows before the loop runs anything
        marks = draw(st.lists(st.integers(0, 2), min_size=len(acts), max_size=len(acts)))
        acts = [a + ["!"] if m == 0 and a[0] == "emit" else a for a, m in zip(acts, marks)]
    # optionally detach the timing node from its upstream in mid-run (destroy() only disconnects:
    # what it holds must still come out with the next tick / timeout) and attach it again later
    detach = None
    if draw(st.integers(0, 4)) == 0 and len(acts) >= 2:
        i = draw(st.integers(0, len(acts) - 1))
        detach = [i, draw(st.integers(i, len(acts)))]
    return {"spec": {"nodes": nodes, "fb": None}, "cmodes": {str(len(nodes) - 1): mode},
            "actions": acts, "detach": detach}


def execute(case):
    spec = case["spec"]
    N, S = len(spec["nodes"]) - 2, len(spec["nodes"]) - 1
    nd = spec["nodes"][N]
    kind, p = nd["k"], nd["p"]
    cmode = list(case["cmodes"].values())[0]
    iv = p["i"] if "i" in p else p["timeout"]
    step_hook = None
    if case.get("detach"):
        i0, j0 = case["detach"]

        def step_hook(k, built):
            n_ = built.nodes[N]
            if k == i0:
                n_.destroy()
            if k == j0 and not n_.upstreams:
                built.nodes[N - 1].connect(n_)
    run = schedule.execute(case, consumer_modes={S: cmode}, step_hook=step_hook)
    ev = run.log.events
    arr = [(i, e[3], e[5]) for i, e in enumerate(ev) if e[0] == "arr" and e[1] == N]
    out = [(i, e[2], e[4]) for i, e in enumerate(ev) if e[0] == "rec" and e[1] == N]
    fin_idx = next((i for i, e in enumerate(ev) if e[0] == "finish-phase"), len(ev))
    v = []
    sig = lambda w: "%s:%s:%s" % (ID, kind if kind != "partition_t" else "partition", w)  # noqa

    def ident(x):
        return min(prov(x))
    # consumer busy intervals
    busy = []
    start = {}
    for e in ev:
        if e[0] == "cs" and e[1] == S:
            start[e[2]] = e[4]
        elif e[0] == "cf" and e[1] == S and e[2] in start:
            busy.append((start.pop(e[2]), e[3]))
    t_end = run.t_end
    for inv, t0 in start.items():
        busy.append((t0, t_end))

    def blocked(a, b):
        return sum(max(0.0, min(b, y) - max(a, x)) for x, y in busy)

    emitted_at = {}
    for oi, batch, t in out:
        for x in batch:
            emitted_at.setdefault(id(x), []).append((oi, t))
    if kind in ("timed_window", "partition_t"):
        flat = [ident(x) for _, b, _ in out for x in b]
        ids = [ident(x) for _, x, _ in arr]
        if len(set(flat)) != len(flat):
            v.append((sig("element-in-two-batches"), "batches %s" % [[ident(x) for x in b]
                                                                     for _, b, _ in out]))
        if kind == "timed_window":
            if flat != ids[:len(flat)]:
                v.append((sig("order"), "arrivals %s, batches concatenated %s" % (ids, flat)))
        else:
            keyf = FUNCS[p["key"]] if p.get("key") else (lambda x: None)
            n = p["n"]
            for oi, b, t in out:
                if len(b) == 0:
                    v.append((sig("empty-partition"), "at t=%s" % t))
                    break
                if len(b) > n:
                    v.append((sig("oversized-partition"), "len %d > n=%d" % (len(b), n)))
                    break
                if len({keyf(x) for x in b}) > 1:
                    v.append((sig("mixed-keys"), repr(b)))
                    break
                if len(b) < n:
                    # partial: only at first member arrival + timeout
                    t_first = [ta for _, x, ta in arr if x is b[0]][0]
                    if t != t_first + iv:
                        v.append((sig("spurious-partial"),
                                  "partial partition %s emitted at %s; its first member arrived "
                                  "at %s, timeout %s" % ([ident(x) for x in b], t, t_first, iv)))
                        break
            for kk in {keyf(x) for _, x, _ in arr}:
                g = [ident(x) for _, b, _ in out for x in b if keyf(x) == kk]
                e = [ident(x) for _, x, _ in arr if keyf(x) == kk]
                if g != e[:len(g)]:
                    v.append((sig("order"), "key %r: arrivals %s batches %s" % (kk, e, g)))
                    break
        missing = [i for i in ids if i not in flat]
        if missing:
            v.append((sig("element-lost"), "never emitted after the finish phase: %s" % missing))
    else:  # timed_window_unique: each batch = survivors of the arrivals since the previous tick
        keyf = FUNCS[p["key"]]
        prev = -1
        for oi, b, t in out:
            win = [x for ai, x, _ in arr if prev < ai < oi]
            prev = oi
            kept = {}
            for x in win:
                kk = keyf(x)
                if p["keep"] == "last":
                    kept.pop(kk, None)
                    kept[kk] = x
                elif kk not in kept:
                    kept[kk] = x
            exp = [ident(x) for x in kept.values()]
            got = [ident(x) for x in b]
            if got != exp:
                v.append((sig("survivors"), "window arrivals %s keep=%s key=%s: emitted %s, "
                          "expected %s" % ([ident(x) for x in win], p["keep"], p["key"], got, exp)))
                break
        last_out = out[-1][0] if out else -1
        left = [ident(x) for ai, x, _ in arr if ai > last_out]
        if left:
            v.append((sig("element-lost"), "arrivals after the last tick never emitted: %s" % left))
    for idx, rid in run.log.mutated():
        v.append((sig("batch-mutated-after-emission"), "batch emitted at log[%d] changed later: "
                  "now %r" % (idx, ev[idx][2])))
        break
    # deadline
    for ai, x, ta in arr:
        es = [(oi, t) for oi, t in emitted_at.get(id(x), []) if oi > ai]
        if not es:
            continue
        te = es[0][1]
        if te > ta + iv + blocked(ta, te):
            v.append((sig("deadline"), "element %d arrived %s, emitted %s, interval %s, consumer "
                      "busy for %s in between" % (ident(x), ta, te, iv, blocked(ta, te))))
            break
    # non-triviality classes
    cls = set()
    tick_times = {t for _, _, t in out}
    if any(ta in tick_times and ta > 1000.0 for _, _, ta in arr):   # not the start instant
        cls.add("arrival-at-tick-instant")
    if any(x0 < ta < y0 for _, _, ta in arr for x0, y0 in busy):
        cls.add("arrival-while-consumer-busy")
    if kind == "partition_t" and any(len(b) == p["n"] for _, b, _ in out) and p["n"] > 1:
        cls.add("size-flush")
    return Result(v, nontrivial=bool(cls), classes=sorted(cls) + ["node:" + kind,
                                                                   "consumer:" + cmode] + (["index-key"] if p.get("key") == "idx0" else []) +
                  (["detach-reattach"] if case.get("detach") else []))


PARTS = [Part("arrival-patterns", case_strategy, execute, quick=2400, thorough=15000)]
