"""C15 — delivery follows the current topology under connect/disconnect/destroy/gc."""
import gc
import weakref

from hypothesis import strategies as st
from hypothesis.stateful import RuleBasedStateMachine, rule, invariant, precondition

import streamz.core as score
import streamz.sinks as ssinks
from streamz import Stream

from harness.elements import E, FUNCS, canon, Consumer, Log
from harness.runner import Part, Result

ID = "C15"
RULE = ("Hypothesis rule-based state machine: rules add_node(kind, parents) over {entry, map, "
        "filter, accumulate, union, zip, combine_latest, sink}, connect(a, b) (no parallel edge, "
        "no cycle, any node kind as target), disconnect(a, b), destroy(n), emit(entry, x), "
        "drop_handle(n)+gc.collect(); edits before and after data has flowed through the nodes. "
        "After every step: (1) the real upstreams/downstreams of every reachable node are "
        "mutually consistent and equal the model's edge set (order included); (2) the arrivals "
        "observed at every node and sink since the previous step equal those of the reference "
        "model executed over the *current* edges, where zip/combine_latest are nodes over their "
        "current inputs holding what those inputs delivered so far (a tuple completed by an edit "
        "may be delivered at the edit or at the next update of that node, but not lost); (3) a "
        "node no longer referenced (harness handle dropped, no live sink below) receives "
        "nothing, sinks receive until destroyed. Non-trivial: >= 1 edit after data flowed "
        "through the edited node and >= 1 later emission.")
ASSUMPTIONS = ["CPython reference counting + explicit gc.collect() is the garbage-collection model",
               "combine_latest with an explicit emit_on stream is not disconnected from that "
               "stream (it cannot be 'built over its current inputs' then)"]

KINDS = ["map", "filter", "accumulate", "union", "zip", "combine_latest", "sink", "map", "sink"]


_OBS = {}


def observed(cls):
    if cls not in _OBS:
        def update(self, x, who=None, metadata=None):
            t = self._verif_topo()
            if t is not None:
                t.log.add("arr", self._verif_id, getattr(who, "_verif_id", None), x,
                          [m.get("id") if isinstance(m, dict) else repr(m)
                           for m in (metadata or [])])
            return cls.update(self, x, who=who, metadata=metadata)
        _OBS[cls] = type(cls.__name__, (cls,), {"update": update})
    return _OBS[cls]


def g_inc(x):
    from harness.elements import leafsum, prov
    return E(leafsum(x) + 1, prov(x))


class MNode:
    def __init__(self, kind):
        self.kind = kind
        self.parents = []   # ordered
        self.children = []  # ordered (attachment order)
        self.handle = True  # harness still references it
        self.destroyed_sink = False
        # state
        self.acc = E(0)
        self.bufs = {}      # zip: parent -> [x]
        self.last = {}      # combine_latest: parent -> x
        self.emit_on = None  # combine_latest(emit_on=0): the parent whose updates trigger a tuple
        self.literal = None  # zip(a, 123, b): (position, value) of the literal argument
        self.had_data = False


class Topo:
    """Real graph + reference model driven by the same steps."""

    def __init__(self):
        self.log = Log()
        self.real = {}                          # id -> stream (strong: the harness handle)
        self.model = {}
        self.consumers = {}
        self.n = 0
        self.trace = []
        self.violations = []
        self.mlog = []                          # model arrivals of the current step
        self.mark = 0
        self.edit_after_data = False
        self.emit_after_edit = False
        self.kinds_seen = set()
        self.sinks_before = set(ssinks._global_sinks)
        self.emits = 0

    # ---- helpers ------------------------------------------------------------------------------
    def _who(self, who):
        return getattr(who, "_verif_id", None)

    def _wrap(self, i, s):
        # observe arrivals through a dynamic subclass (no per-instance closure, hence no
        # reference cycle: an unreferenced node is freed by reference counting at once)
        s._verif_id = i
        s._verif_topo = weakref.ref(self)
        s.__class__ = observed(type(s))

    def alive(self):
        """model liveness: reachable backwards from harness handles and live sinks"""
        roots = [i for i, m in self.model.items()
                 if m.handle or (m.kind == "sink" and not m.destroyed_sink)]
        seen = set()
        stack = list(roots)
        while stack:
            i = stack.pop()
            if i in seen:
                continue
            seen.add(i)
            stack.extend(self.model[i].parents)
        return seen

    def nonsink(self):
        return sorted(i for i in self.real if self.model[i].kind != "sink")

    def ancestors(self, i):
        seen, stack = set(), [i]
        while stack:
            for p in self.model[stack.pop()].parents:
                if p not in seen:
                    seen.add(p)
                    stack.append(p)
        return seen

    # ---- model execution ------------------------------------------------------------------------
    def m_emit(self, i, x, md):
        m = self.model[i]
        for c in list(m.children):
            if c in self.model and c in self._alive_now:
                self.m_update(c, i, x, md)

    def m_update(self, c, who, x, md):
        m = self.model[c]
        self.mlog.append((c, who, canon(x), list(md)))
        m.had_data = True
        k = m.kind
        if k == "entry":
            self.m_emit(c, x, md)
        elif k == "map":
            self.m_emit(c, g_inc(x), md)
        elif k == "filter":
            if FUNCS["is_even"](x):
                self.m_emit(c, x, md)
        elif k == "accumulate":
            m.acc = FUNCS["acc_add"](m.acc, x)
            self.m_emit(c, m.acc, md)
        elif k == "union":
            self.m_emit(c, x, md)
        elif k == "zip":
            m.bufs.setdefault(who, []).append((x, md))
            obs = self.zip_obs.setdefault(c, self.observed_zip(c))
            j = self.zip_calls.get(c, 0)
            self.zip_calls[c] = j + 1
            avail = self.zip_ready(c)
            # not observable (no live child): take the minimum the property accepts, one tuple
            # per update -- the backlog stays owed and becomes observable once a child is added
            r = (1 if avail else 0) if obs is None else obs.get(j, 0)
            k_ = self.zip_emit(c, r)
            if obs is not None and (k_ != r or (avail and r == 0)):
                self.violations.append(("%s:zip:%s" % (ID, "complete-tuple-not-emitted" if avail and r == 0 else "emitted-unavailable-tuple"),
                                        "step %s: zip %d update #%d: real emitted %s tuple(s), %s"
                                        % (self.trace[-1], c, j, r, "a complete tuple was available"
                                           if avail else "model could emit %d" % k_)))
                self.dead = True
        elif k == "combine_latest":
            m.last[who] = (x, md)
            if all(p in m.last for p in m.parents) and m.emit_on in (None, who):
                self.m_emit(c, tuple(m.last[p][0] for p in m.parents),
                            [i_ for p in m.parents for i_ in m.last[p][1]])
        elif k == "sink":
            pass

    def zip_ready(self, c):
        m = self.model[c]
        return bool(m.parents) and all(m.bufs.get(p) for p in m.parents)

    def zip_emit(self, c, r_obs):
        """zip owes every complete tuple; a tuple completed by an edit may come out at the edit or
        at a later update of the node.  r_obs = how many tuples the real node was observed to emit
        at this point (None: not observable, the node has no live child).  Accepted: 0..K at an
        edit, 1..K at an update when K >= 1 tuples are complete."""
        m = self.model[c]
        k = 0
        while self.zip_ready(c) and (r_obs is None or k < r_obs):
            heads = [m.bufs[p].pop(0) for p in m.parents]
            k += 1
            vals = [h[0] for h in heads]
            if m.literal is not None:
                vals.insert(m.literal[0], m.literal[1])
            self.m_emit(c, tuple(vals), [i_ for h in heads for i_ in h[1]])
        return k

    def observed_zip(self, z):
        """per update-call of zip z in the real log of this step: number of tuples it handed to
        its first live child (None if it has none).  Index -1: emitted outside any update (edit)"""
        ch = [c for c in self.model[z].children if c in self._alive_now]
        if not ch:
            return None
        c0 = ch[0]
        counts = {-1: 0}
        j = -1
        for e in self.log.events[self.mark:]:
            if e[0] != "arr":
                continue
            if e[1] == z:
                j += 1
                counts[j] = 0
            elif e[1] == c0 and e[2] == z:
                counts[j] += 1
        return counts

    # ---- steps ----------------------------------------------------------------------------------
    def step(self, op, *args):
        self.trace.append([op] + list(args))
        self.mark = len(self.log.events)
        self.mlog = []
        self.zip_obs = {}
        self.zip_calls = {}
        self._alive_now = self.alive()
        try:
            getattr(self, "do_" + op)(*args)
        except Exception as e:
            import traceback
            from harness.runner import from_repo, exc_signature
            if from_repo(e.__traceback__):
                self.violations.append((exc_signature(ID, e) + ":" + op,
                                        "step %s%r raised %r" % (op, args, e)))
                self.dead = True
                return
            raise
        self.check()

    def do_add(self, kind, parent_picks):
        cands = self.nonsink()
        i = self.n
        self.n += 1
        m = MNode(kind)
        if kind == "entry" or not cands:
            kind = m.kind = "entry"
            s = Stream()
            ps = []
        else:
            ps = []
            for pk in parent_picks:
                p = cands[pk % len(cands)]
                if p not in ps:
                    ps.append(p)
            if kind not in ("union", "zip", "combine_latest"):
                ps = ps[:1]
            ups = [self.real[p] for p in ps]
            if kind == "map":
                s = ups[0].map(g_inc)
            elif kind == "filter":
                s = ups[0].filter(FUNCS["is_even"])
            elif kind == "accumulate":
                s = ups[0].accumulate(FUNCS["acc_add"], start=E(0))
            elif kind == "union":
                s = score.union(*ups)
            elif kind == "zip":
                if i % 4 == 2:
                    # a literal among the arguments keeps its position in every tuple, whatever
                    # is connected or disconnected later
                    s = score.zip(ups[0], 123, *ups[1:])
                    m.literal = (1, 123)
                elif i % 4 == 3:
                    # ... also as the last argument (with fewer inputs left it follows them)
                    s = score.zip(*ups, 123)
                    m.literal = (len(ups), 123)
                else:
                    s = score.zip(*ups)
            elif kind == "combine_latest":
                if i % 3 == 1 and len(ups) >= 2:
                    # emit_on given as an index: tuples only on updates of that input, also
                    # after later edits of the node's other inputs
                    s = score.combine_latest(*ups, emit_on=0)
                    m.emit_on = ps[0]
                else:
                    s = score.combine_latest(*ups)
            elif kind == "sink":
                c = Consumer(self.log, i, "sync")
                self.consumers[i] = c
                s = ups[0].sink(c)
        self.kinds_seen.add(kind)
        self._wrap(i, s)
        self.real[i] = s
        m.parents = list(ps)
        for p in ps:
            self.model[p].children.append(i)
        self.model[i] = m

    def do_connect(self, a_pick, b_pick):
        cands = self.nonsink()
        if not cands:
            return
        a = cands[a_pick % len(cands)]
        targets = [b for b in sorted(self.real) if b != a and a not in self.model[b].parents
                   and b not in self.ancestors(a)]
        if not targets:
            return
        b = targets[b_pick % len(targets)]
        self.trace[-1] = ["connect_ids", a, b]
        self.do_connect_ids(a, b)

    def do_connect_ids(self, a, b):
        if a not in self.real or b not in self.real or a in self.model[b].parents or \
                b in self.ancestors(a) or a == b or self.model[a].kind == "sink":
            return  # (only in minimised traces)
        self._note_edit(b)
        self.real[a].connect(self.real[b])
        self.model[a].children.append(b)
        self.model[b].parents.append(a)
        if self.model[b].kind == "zip":
            self.model[b].bufs.setdefault(a, [])

    def _edges(self):
        return [(p, c) for c in sorted(self.real) for p in self.model[c].parents if p in self.real]

    def do_disconnect(self, pick):
        edges = self._edges()
        if not edges:
            return
        a, b = edges[pick % len(edges)]
        self.trace[-1] = ["disconnect_ids", a, b]
        self.do_disconnect_ids(a, b)

    def do_disconnect_ids(self, a, b):
        if a not in self.real or b not in self.real or a not in self.model[b].parents:
            return
        if self.model[b].emit_on == a:
            return      # (see ASSUMPTIONS: the emit_on input stays connected)
        self._note_edit(b)
        self.real[a].disconnect(self.real[b])
        self._m_remove_edge(a, b)

    def _m_remove_edge(self, a, b):
        self.model[a].children.remove(b)
        mb = self.model[b]
        mb.parents.remove(a)
        mb.bufs.pop(a, None)
        mb.last.pop(a, None)
        if mb.kind == "zip":
            obs = self.observed_zip(b)
            self.zip_emit(b, 0 if obs is None else obs.get(-1, 0))

    def do_destroy(self, pick):
        cands = sorted(self.real)
        if not cands:
            return
        n = cands[pick % len(cands)]
        self.trace[-1] = ["destroy_id", n]
        self.do_destroy_id(n)

    def do_destroy_id(self, n):
        if n not in self.real:
            return
        m = self.model[n]
        if m.kind == "sink" and m.destroyed_sink:
            return
        if m.emit_on is not None and m.emit_on in m.parents:
            return
        self._note_edit(n)
        self.real[n].destroy()
        for p in list(m.parents):
            self._m_remove_edge(p, n)
        if m.kind == "sink":
            m.destroyed_sink = True

    def do_destroy_some(self, pick, sel):
        """destroy(streams=<a selection of the node's upstreams, possibly empty>)"""
        cands = sorted(i for i in self.real if self.model[i].kind != "sink")
        if not cands:
            return
        n = cands[pick % len(cands)]
        ps = list(self.model[n].parents)
        chosen = [p for k, p in enumerate(ps) if k < len(sel) and sel[k]]
        self.trace[-1] = ["destroy_some_ids", n, chosen]
        self.do_destroy_some_ids(n, chosen)

    def do_destroy_some_ids(self, n, chosen):
        if n not in self.real or self.model[n].kind == "sink":
            return
        chosen = [p for p in chosen if p in self.real and p in self.model[n].parents
                  and p != self.model[n].emit_on]
        self._note_edit(n)
        self.real[n].destroy(streams=[self.real[p] for p in chosen])
        for p in chosen:
            self._m_remove_edge(p, n)

    def do_drop(self, pick):
        cands = sorted(i for i in self.real if self.model[i].kind != "entry")
        if not cands:
            return
        n = cands[pick % len(cands)]
        self.trace[-1] = ["drop_id", n]
        self.do_drop_id(n)

    def do_drop_id(self, n):
        if n not in self.real or self.model[n].kind == "entry":
            return
        self.model[n].handle = False
        del self.real[n]
        gc.collect()
        # model: nodes that are no longer alive disappear, together with their edges
        alive = self.alive()
        for i in list(self.model):
            if i not in alive:
                for p in list(self.model[i].parents):
                    if p in self.model:
                        self.model[p].children.remove(i)
                for c in list(self.model[i].children):
                    if c in self.model and i in self.model[c].parents:
                        self._m_remove_edge_dead_parent(i, c)
                del self.model[i]

    def _m_remove_edge_dead_parent(self, a, b):  # pragma: no cover (children keep parents alive)
        self.model[b].parents.remove(a)

    def do_emit(self, pick, v):
        ents = sorted(i for i in self.real if self.model[i].kind == "entry")
        if not ents:
            return
        e = ents[pick % len(ents)]
        self.trace[-1] = ["emit_id", e, v]
        self.do_emit_id(e, v)

    def do_emit_id(self, e, v):
        if e not in self.real or self.model[e].kind != "entry":
            return
        self.emits += 1
        if self.edit_after_data:
            self.emit_after_edit = True
        x = E(v, {self.emits})
        self._alive_now = self.alive()
        self.model[e].had_data = True
        md = [{"id": self.emits}] if self.emits % 3 else None
        self.real[e].emit(x, metadata=md)
        self.m_emit(e, x, [self.emits] if md else [])

    def _note_edit(self, n):
        if self.model[n].had_data:
            self.edit_after_data = True

    # ---- invariants -----------------------------------------------------------------------------
    def check(self):
        if getattr(self, "dead", False):
            return
        v = self.violations
        # (2)/(3) deliveries of this step
        real = [(e[1], e[2], canon(e[3]), e[4]) for e in self.log.events[self.mark:]
                if e[0] == "arr"]
        model = list(self.mlog)
        model2 = model
        if real != model2:
            # root cause: first differing arrival
            k = 0
            while k < min(len(real), len(model2)) and real[k] == model2[k]:
                k += 1
            r = real[k] if k < len(real) else None
            m = model2[k] if k < len(model2) else None
            node = (r or m)[0]
            src = (r or m)[1]
            kind = self.model[node].kind if node in self.model else "collected-node"
            skind = self.model[src].kind if src in self.model else "?"
            what = "extra-delivery" if m is None or (r and r[0] not in self.model) else \
                   "missing-delivery" if r is None else \
                   ("wrong-metadata" if r[:3] == m[:3] else "wrong-delivery")
            v.append(("%s:%s:%s-from-%s" % (ID, kind, what, skind),
                      "step %s: real arrivals %s, model %s" % (self.trace[-1], real[k:k + 3],
                                                                 model2[k:k + 3])))
            self.dead = True
            return
        # (1) links
        reach = {}
        stack = [(i, s) for i, s in self.real.items()]
        for s in ssinks._global_sinks:
            if s not in self.sinks_before:
                i = self._who(s)
                if i is not None:
                    stack.append((i, s))
        while stack:
            i, s = stack.pop()
            if i in reach:
                continue
            reach[i] = s
            for u in s.upstreams:
                ui = self._who(u)
                if ui is not None:
                    stack.append((ui, u))
        alive = self.alive()
        if set(reach) != alive:
            v.append(("%s:liveness" % ID, "step %s: real reachable %s, model alive %s" % (
                self.trace[-1], sorted(reach), sorted(alive))))
            self.dead = True
            return
        for i, s in reach.items():
            ups = [self._who(u) for u in s.upstreams]
            downs = [self._who(d) for d in s.downstreams]
            m = self.model[i]
            if ups != m.parents:
                v.append(("%s:upstreams-differ%s" % (ID, ""), "step %s node %d: real %s "
                          "model %s" % (self.trace[-1], i, ups, m.parents)))
                self.dead = True
                return
            mch = [c for c in m.children if c in alive]
            if downs != mch:
                v.append(("%s:downstreams-differ%s" % (ID, ""), "step %s node %d: real %s "
                          "model %s" % (self.trace[-1], i, downs, mch)))
                self.dead = True
                return
            for u in s.upstreams:
                if s not in u.downstreams:
                    v.append(("%s:link-not-mutual%s" % (ID, ""), "node %d" % i))
                    self.dead = True
                    return

    def close(self):
        for s in list(ssinks._global_sinks):
            if s not in self.sinks_before:
                ssinks._global_sinks.discard(s)
        self.real.clear()
        gc.collect()


def make_machine(tier="quick"):
    class TopologyMachine(RuleBasedStateMachine):
        on_step = staticmethod(lambda m: None)
        on_done = staticmethod(lambda m: None)

        def __init__(self):
            super().__init__()
            self.t = Topo()
            self.t.step("add", "entry", [])
            self.t.step("add", "entry", [])

        @property
        def trace(self):
            return self.t.trace

        @property
        def violations(self):
            return self.t.violations

        def nontrivial(self):
            return self.t.edit_after_data and self.t.emit_after_edit

        def classes(self):
            ops = {s[0] for s in self.t.trace}
            return ["op:" + o for o in ops] + ["kind:" + k for k in self.t.kinds_seen] + \
                (["edit-after-data"] if self.t.edit_after_data else [])

        def alive(self):
            return not getattr(self.t, "dead", False)

        @precondition(lambda self: self.alive())
        @rule(kind=st.sampled_from(KINDS + ["entry"]),
              parents=st.lists(st.integers(0, 20), min_size=1, max_size=3))
        def add_node(self, kind, parents):
            self.t.step("add", kind, parents)

        @precondition(lambda self: self.alive())
        @rule(a=st.integers(0, 20), b=st.integers(0, 20))
        def connect(self, a, b):
            self.t.step("connect", a, b)

        @precondition(lambda self: self.alive())
        @rule(pick=st.integers(0, 40))
        def disconnect(self, pick):
            self.t.step("disconnect", pick)

        @precondition(lambda self: self.alive())
        @rule(pick=st.integers(0, 20))
        def destroy(self, pick):
            self.t.step("destroy", pick)

        @precondition(lambda self: self.alive())
        @rule(pick=st.integers(0, 20), sel=st.lists(st.booleans(), max_size=3))
        def destroy_some(self, pick, sel):
            self.t.step("destroy_some", pick, sel)

        @precondition(lambda self: self.alive())
        @rule(pick=st.integers(0, 20))
        def drop_handle(self, pick):
            self.t.step("drop", pick)

        @precondition(lambda self: self.alive())
        @rule(pick=st.integers(0, 5), v=st.integers(0, 5))
        def emit(self, pick, v):
            self.t.step("emit", pick, v)

        @precondition(lambda self: self.alive())
        @rule(pick=st.integers(0, 5), v=st.integers(0, 5))
        def emit_again(self, pick, v):
            self.t.step("emit", pick, v)

        # focused rules: the interesting histories need a combining node with >= 2 inputs, a
        # consumer below it, and an edit of one of *its* edges after data flowed
        @precondition(lambda self: self.alive())
        @rule(kind=st.sampled_from(["zip", "combine_latest"]),
              parents=st.lists(st.integers(0, 20), min_size=2, max_size=3, unique=True))
        def add_join(self, kind, parents):
            self.t.step("add", kind, parents)

        @precondition(lambda self: self.alive())
        @rule(pick=st.integers(0, 20))
        def add_sink_below_join(self, pick):
            joins = [i for i in self.t.nonsink() if self.t.model[i].kind in ("zip", "combine_latest")]
            if joins:
                cands = self.t.nonsink()
                self.t.step("add", "sink", [cands.index(joins[pick % len(joins)])])

        @precondition(lambda self: self.alive())
        @rule(pick=st.integers(0, 20))
        def disconnect_join_input(self, pick):
            edges = self.t._edges()
            je = [k for k, (a, b) in enumerate(edges) if self.t.model[b].kind in ("zip", "combine_latest")]
            if je:
                self.t.step("disconnect", je[pick % len(je)])

        @rule()
        def idle(self):
            pass

        @invariant()
        def no_violation(self):
            self.on_step(self)

        def teardown(self):
            try:
                self.on_done(self)
            finally:
                self.t.close()
    return TopologyMachine


def execute(case):
    """replay of a recorded trace, no Hypothesis involved"""
    t = Topo()
    for s in case["trace"]:
        t.step(s[0] if not s[0].endswith("_ids") and not s[0].endswith("_id") else s[0], *s[1:])
        if getattr(t, "dead", False):
            break
    res = Result(list(t.violations), t.edit_after_data and t.emit_after_edit, [])
    t.close()
    return res


PARTS = [Part("machine", None, execute, quick=800, thorough=2500, machine=make_machine, steps=30,
              shrink_quick=False, quick_factor=2)]
