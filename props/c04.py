"""C04 — checkpoint safety: the completion signal never precedes completion."""
from hypothesis import strategies as st

from harness import local
from harness.elements import prov
from harness.runner import Part, Result
from props import mdcommon

ID = "C04"
RULE = ("Pipelines over every node kind that can hold data after update() returns (buffer, delay, "
        "rate_limit, map_async, timed_window(_unique), partition(timeout), latest, zip, "
        "combine_latest, zip_latest, sliding_window, collect, partition(_unique), flatten ...), "
        "generated schedules (as C02), every emission carrying an instrumented RefCounter in its "
        "metadata (0/1/2 dicts), user-function / consumer / job faults on a third of the cases. "
        "History invariant at every instant the repository's RefCounter schedules its callback "
        "for emission i: (1) every started consumer invocation / map_async job whose argument "
        "derives from i (provenance) has finished; (2) no consumer call or job deriving from i "
        "starts afterwards (else it was still buffered / waiting / being computed); (3) the "
        "callback is never scheduled for an emission for which a user function, job or consumer "
        "raised. Non-trivial: an emission with a counter was held by a node across >= 1 schedule "
        "action before its callback, or a fault hit an emission with a counter.")
ASSUMPTIONS = ["provenance through accumulate is cut: its state is a digest, not data in flight",
               "dask scatter/gather holds are exercised in C20"]


ASYNC_HOLDERS = {"buffer", "delay", "rate_limit", "map_async", "timed_window", "partition_t",
                 "timed_window_unique", "latest"}


SYNC_HOLDERS = {"collect", "partition", "partition_unique", "sliding_window", "zip",
                "combine_latest", "zip_latest"}


def em_of(ident):
    return ident[0] if isinstance(ident, tuple) else ident


def oracle(spec, run, pid=ID):
    ev = run.log.events
    nodes = spec["nodes"]
    v = []
    seen_sigs = set()
    cs, cf, js, jf, cc = {}, {}, {}, {}, {}
    failed = {}  # emission k -> first log idx of a failure on data derived from k
    for idx, e in enumerate(ev):
        if e[0] == "cc":
            cc[(e[1], e[2])] = (idx, e[3])
        elif e[0] == "cs":
            cs[(e[1], e[2])] = (idx, e[3])
        elif e[0] == "cf":
            cf[(e[1], e[2])] = idx
        elif e[0] == "js":
            js[(e[1], e[2])] = (idx, e[3])
        elif e[0] in ("jf", "jx"):
            jf[(e[1], e[2])] = idx
            if e[0] == "jx":
                for k in prov(js[(e[1], e[2])][1]):
                    failed.setdefault(k, (idx, "map_async", e[1], js[(e[1], e[2])][1], js[(e[1], e[2])][0]))
        elif e[0] == "cx":
            cf[(e[1], e[2])] = idx
            for k in prov(cs[(e[1], e[2])][1]):
                failed.setdefault(k, (idx, "sink", e[1], cs[(e[1], e[2])][1], cc[(e[1], e[2])][0]))
        elif e[0] == "fx":
            for k in e[3]:
                failed.setdefault(k, (idx, nodes[e[1]]["k"], None, None, None))
    last_piece_unlabelled = []

    def unlabelled_piece(node, x, k, before=None):
        """data derived from emission k reached `node` without k's counter in its metadata, and
        a one-to-many node (flatten: metadata on the last piece only) is upstream"""
        lim = len(ev) if before is None else before
        arr = [(iz, z) for iz, z in enumerate(ev[:lim])
               if z[0] == "arr" and z[1] == node and z[3] is x]
        if not arr:
            return False
        at, last_arr = arr[-1]
        md = last_arr[4] or []
        has = any(m.get("ref") is rc for m in md if isinstance(m, dict) for rc in run.rcs.get(k, []))
        if has:
            return False
        seen, stack = set(), [node]
        while stack:
            j = stack.pop()
            for u in nodes[j]["u"]:
                if u not in seen:
                    seen.add(u)
                    stack.append(u)
        if not any(nodes[a]["k"] == "flatten" for a in seen):
            return False
        # the known finding is about pieces other than the last of their batch; the last piece
        # does carry the batch's metadata.  If this arrival is the last piece of its batch (the
        # very object flatten emitted, occurring once in the batch), the finding does not
        # explain the missing counter.
        for f in seen:
            if nodes[f]["k"] != "flatten":
                continue
            batch, hit = None, None
            for z in ev[:at + 1]:
                if z[0] == "arr" and z[1] == f:
                    batch = z
                elif z[0] == "rec" and z[1] == f and z[2] is x:
                    hit = batch       # the batch of the most recent emission of x by f
            # ... and only if that batch itself arrived with the counter (otherwise it was an
            # unlabelled earlier piece of a flatten further up: the known finding again)
            labelled = hit is not None and any(
                m.get("ref") is rc for m in (hit[4] or []) if isinstance(m, dict)
                for rc in run.rcs.get(k, []))
            hit = hit[3] if hit is not None else None
            if labelled and isinstance(hit, (list, tuple)) and len(hit) and hit[-1] is x and \
                    sum(1 for b_ in hit if b_ is x) == 1:
                last_piece_unlabelled.append((f, x))
                return False
        return True

    for T, e in enumerate(ev):
        if e[0] != "trig":
            continue
        k = em_of(e[1])
        site = e[3]

        def add(holder, what, detail):
            # root cause = the node that had the data but no hold on the counter
            sig = "%s:%s:%s" % (pid, holder, what)
            if sig not in seen_sigs:
                seen_sigs.add(sig)
                v.append((sig, "emission %d: callback scheduled at log[%d] t=%s by %s; %s" % (
                    k, T, e[2], site, detail)))
        for key, (i0, x) in cs.items():
            if i0 < T and k in prov(x) and cf.get(key, 10 ** 9) > T:
                if unlabelled_piece(key[0], x, k, cc[key][0]):
                    add("flatten", "earlier-piece-carries-no-metadata", "consumer %d still "
                        "handling piece %r" % (key[0], x))
                    break
                add("sink", "consumer-pending", "consumer %d invocation %d still handling %r" % (
                    key[0], key[1], x))
                break
        for key, (i0, x) in js.items():
            if i0 < T and k in prov(x) and jf.get(key, 10 ** 9) > T:
                if unlabelled_piece(key[0], x, k, i0):
                    add("flatten", "earlier-piece-carries-no-metadata", "job of node %d still "
                        "computing piece %r" % (key[0], x))
                    break
                add("map_async", "job-pending", "map_async node %d job %d still computing %r" % (
                    key[0], key[1], x))
                break
        later = [(i0, "consumer %d" % key[0], x, key[0]) for key, (i0, x) in cc.items()
                 if i0 > T and k in prov(x)] + \
                [(i0, "job of node %d" % key[0], x, key[0]) for key, (i0, x) in js.items()
                 if i0 > T and k in prov(x)]
        flat = [t for t in later if unlabelled_piece(t[3], t[2], k, t[0])]
        if flat:
            add("flatten", "earlier-piece-carries-no-metadata", "%s received piece %r later" % (
                flat[0][1], flat[0][2]))
        later = [t for t in later if t not in flat]
        if later:
            i0, who, x, _ = min(later, key=lambda t: t[0])
            # where was it at time T?  the node closest to the receiver, among those that keep
            # data after update() returns, that had received data derived from k and not yet
            # handed all of it on
            where = "?"
            for holders in (ASYNC_HOLDERS, SYNC_HOLDERS):
                for i in reversed(range(len(nodes))):
                    nd = nodes[i]
                    if nd["k"] not in holders:
                        continue
                    a = sum(1 for z in ev[:T] if z[0] == "arr" and z[1] == i and k in prov(z[3]))
                    o = sum(1 for z in ev[:T] if z[0] == "rec" and z[1] == i and k in prov(z[2]))
                    if a > o:
                        where = nd["k"]
                        break
                if where != "?":
                    break
            add(where, "waiting-unheld", "%s received %r (derived from it) later, at log[%d]" % (
                who, x, i0))
        if k in failed and failed[k][0] < T:
            if failed[k][2] is not None and unlabelled_piece(failed[k][2], failed[k][3], k, failed[k][4]):
                add("flatten", "earlier-piece-carries-no-metadata", "a %s raised on piece %r" % (
                    failed[k][1], failed[k][3]))
                continue
            add(failed[k][1], "triggered-after-failure", "a %s processing data derived from it "
                "raised at log[%d]" % (failed[k][1], failed[k][0]))
    if last_piece_unlabelled:
        f, x = last_piece_unlabelled[0]
        v.append(("%s:flatten:last-piece-carries-no-metadata" % ID, "flatten node %d passed on the "
                  "last piece %r of a batch without the batch's counter, which was triggered while "
                  "that piece was still being processed" % (f, x)))
    return v


def execute(case):
    spec = case["spec"]
    run = mdcommon.run_case(case)
    v = oracle(spec, run)
    ev = run.log.events
    # non-trivial: an emission with a counter stayed held across >= 1 action before its trigger
    qs = [i for i, e in enumerate(ev) if e[0] == "q"]
    em_at = {e[1]: i for i, e in enumerate(ev) if e[0] == "emitret"}
    held = False
    for T, e in enumerate(ev):
        if e[0] == "trig":
            k = em_of(e[1])
            if k in em_at and any(em_at[k] < q < T for q in qs):
                held = True
                break
    fault_hit = any(e[0] in ("fx", "cx", "jx") for e in ev) and bool(run.rcs)
    classes = ["kind:" + k for k in {nd["k"] for nd in spec["nodes"]}]
    if held:
        classes.append("held-across-action")
    if fault_hit:
        classes.append("fault-hit")
    if any(e[0] == "trig" for e in ev):
        classes.append("some-callback")
    return Result(v, nontrivial=held or fault_hit, classes=classes)


def strategy(tier="quick"):
    return mdcommon.md_case(tier, faults=True)


@st.composite
def one_to_many_case(draw, tier="quick"):
    """batching node -> flatten -> optional holding node -> asynchronous consumer: the pieces of
    one batch are in flight at different places when its counter is triggered"""
    from harness import schedule
    nodes = [{"k": "entry", "u": [], "p": {}, "t": "E"}]
    b = draw(st.sampled_from(["sliding_window", "pair", "partition"]))
    if b == "sliding_window":
        n = draw(st.integers(2, 3))
        partial = draw(st.booleans())
        nodes.append({"k": "sliding_window", "u": [0], "p": {"n": n, "partial": partial},
                      "t": ["L", "E"] if partial else ["H", ["E"] * n]})
    elif b == "pair":
        nodes.append({"k": "map", "u": [0], "p": {"f": "pair"}, "t": ["H", ["E", "E"]]})
    else:
        n = draw(st.integers(2, 3))
        nodes.append({"k": "partition", "u": [0], "p": {"n": n, "key": None}, "t": ["H", ["E"] * n]})
    nodes.append({"k": "flatten", "u": [1], "p": {}, "t": "E"})
    h = draw(st.sampled_from([None, None, "buffer", "delay", "partition", "map"]))
    if h == "buffer":
        nodes.append({"k": "buffer", "u": [2], "p": {"n": draw(st.integers(1, 3))}, "t": "E"})
    elif h == "delay":
        nodes.append({"k": "delay", "u": [2], "p": {"i": 0.5}, "t": "E"})
    elif h == "partition":
        nodes.append({"k": "partition", "u": [2], "p": {"n": 2, "key": None}, "t": ["H", ["E", "E"]]})
    elif h == "map":
        nodes.append({"k": "map", "u": [2], "p": {"f": "inc"}, "t": "E"})
    nodes.append({"k": "sink", "u": [len(nodes) - 1], "p": {}, "t": None})
    spec = {"nodes": nodes, "fb": None}
    cm = {str(len(nodes) - 1): draw(st.sampled_from(["fut", "fut", "coro", "sync"]))}
    acts = draw(schedule.actions_strategy(spec, max_actions=24, min_actions=4))
    md = draw(st.lists(st.sampled_from([1, 1, 2, 0, 4]), min_size=1, max_size=4))
    return {"spec": spec, "cmodes": cm, "actions": acts, "md": md}


PARTS = [Part("schedules", strategy, execute, quick=1600, thorough=8000),
         Part("one-to-many", one_to_many_case, execute, quick=300, thorough=3000)]
