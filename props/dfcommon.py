"""Shared by the dataframe properties C06/C07/C11/C12: tables, batch splits, comparison."""
import math

import numpy as np
import pandas as pd
from hypothesis import strategies as st

NAN = float("nan")


@st.composite
def table(draw, max_rows=12, nan=True, min_rows=1, time_index=False, categorical=False,
          nan_keys=False, inf=False):
    n = draw(st.integers(min_rows, max_rows))
    xv = st.integers(-12, 12).map(lambda k: k / 4.0)
    if nan and draw(st.booleans()):
        xv = st.one_of(xv, xv, xv, st.just(None))
    if inf and draw(st.integers(0, 5)) == 0:
        xv = st.one_of(xv, xv, xv, st.just("inf"))      # JSON-able spelling of +infinity
    rows = [[draw(xv), draw(st.integers(0, 5)), draw(st.integers(0, 3))] for _ in range(n)]
    # "cat": the key column is categorical with a category that never occurs
    t = {"rows": rows, "gkind": draw(st.sampled_from(["int", "int", "str"] +
                                                     (["cat"] if categorical else [])))}
    if nan_keys and t["gkind"] in ("int", "str") and draw(st.integers(0, 3)) == 0:
        t["gnan"] = True    # key 3 is a missing key (NaN / None): pandas' groupby leaves such rows out
    if time_index:
        # non-decreasing timestamps on a 1 s grid, duplicates allowed
        steps = [draw(st.integers(0, 3)) for _ in range(n)]
        acc, ts = 0, []
        for s in steps:
            acc += s
            ts.append(acc)
        t["ts"] = ts
        # resolution of the index (epoch seconds read with unit="s" give a datetime64[s] index)
        t["ts_unit"] = draw(st.sampled_from(["ns", "ns", "us", "s", "ms"]))
    return t


@st.composite
def cuts_for(draw, n, max_cuts=6):
    """sorted multiset of cut positions: repeats give empty batches (also first / consecutive)"""
    return sorted(draw(st.lists(st.integers(0, n), max_size=max_cuts)))


def frame(t, lo=0, hi=None):
    rows = t["rows"][lo:hi]
    x = [NAN if r[0] is None else (float("inf") if r[0] == "inf" else r[0]) for r in rows]
    y = [r[1] for r in rows]
    g = [r[2] for r in rows]
    if t["gkind"] in ("str", "cat"):
        g = ["abcd"[k] for k in g]
    gdtype = {"int": "int64", "str": "object",
              "cat": pd.CategoricalDtype(categories=list("abcde"))}[t["gkind"]]
    if t.get("gnan"):
        g = [None if k in (3, "d") else k for k in g]
        gdtype = "float64" if t["gkind"] == "int" else "object"
    df = pd.DataFrame({"x": pd.Series(x, dtype="float64"), "y": pd.Series(y, dtype="int64"),
                       "g": pd.Series(g, dtype=gdtype)})
    if "ts" in t:
        df.index = pd.DatetimeIndex([pd.Timestamp("2020-01-01") + pd.Timedelta(seconds=s)
                                     for s in t["ts"][lo:hi]]).as_unit(t.get("ts_unit", "ns"))
    else:
        df.index = pd.RangeIndex(lo, lo + len(rows))
    return df


def batches(t, cuts):
    n = len(t["rows"])
    out, prev = [], 0
    for c in list(cuts) + [n]:
        out.append(frame(t, prev, c))
        prev = c
    return out


def example_frame(t, kind="two"):
    ex = {"rows": [[1.0, 1, 0], [2.0, 2, 1]], "gkind": t["gkind"], "gnan": t.get("gnan")}
    if "ts" in t:
        ex["ts"] = [0, 1]
        ex["ts_unit"] = t.get("ts_unit", "ns")
    df = frame(ex)
    if kind == "empty":
        df = df.iloc[:0]
    return df


def _num_eq(a, b, rtol=1e-9, atol=1e-9):
    try:
        a = float(a)
        b = float(b)
    except (TypeError, ValueError):
        return a == b
    if math.isnan(a) and math.isnan(b):
        return True
    if math.isnan(a) or math.isnan(b):
        return False
    if math.isinf(a) or math.isinf(b):
        return a == b
    return abs(a - b) <= atol + rtol * abs(b)


def same(got, exp):
    """-> None if equal under the C06 comparison rules, else a short reason.
    Same type class (scalar / Series / DataFrame), same index label set, values equal after
    sort_index with rtol=atol=1e-9, NaN == NaN; dtype and index order are not compared."""
    if isinstance(exp, pd.DataFrame):
        if not isinstance(got, pd.DataFrame):
            return "type %s instead of DataFrame" % type(got).__name__
        if sorted(map(str, got.columns)) != sorted(map(str, exp.columns)):
            return "columns %s vs %s" % (list(got.columns), list(exp.columns))
        if len(got) != len(exp):
            return "%d rows vs %d rows" % (len(got), len(exp))
        for c in exp.columns:
            r = same(got[c], exp[c])
            if r:
                return "column %s: %s" % (c, r)
        return None
    if isinstance(exp, pd.Series):
        if not isinstance(got, pd.Series):
            return "type %s instead of Series" % type(got).__name__
        gi = sorted(map(repr, got.index))
        ei = sorted(map(repr, exp.index))
        if gi != ei:
            return "index labels %s vs %s" % (list(got.index), list(exp.index))
        if got.index.has_duplicates or exp.index.has_duplicates:
            g = list(got.values)
            e = list(exp.values)
            if len(g) != len(e) or any(not _num_eq(a, b) for a, b in zip(g, e)):
                return "values %s vs %s" % (g, e)
            return None
        for lab in exp.index:
            if not _num_eq(got[lab], exp[lab]):
                return "at %r: %r vs %r" % (lab, got[lab], exp[lab])
        return None
    if isinstance(got, (pd.Series, pd.DataFrame, tuple, list, dict, set, np.ndarray)):
        return "type %s instead of scalar" % type(got).__name__
    if not _num_eq(got, exp):
        return "%r vs %r" % (got, exp)
    return None


def jsonable(t, cuts):
    return {"rows": t["rows"], "gkind": t["gkind"], "cuts": list(cuts)}
