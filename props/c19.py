"""C19 — one event loop per pipeline; async pipelines never leave the caller's loop."""
import itertools
import queue
import threading

from hypothesis import strategies as st
from tornado.ioloop import IOLoop

import streamz.core as score
from streamz import Stream

from harness.runner import Part, Result
from harness.vloop import install

ID = "C19"
EXHAUSTIVE = True
RULE = ("Part 'blocking-runtime' runs blocking pipelines (nothing declared) with map_async / "
        "buffer / delay / rate_limit, with and without start() from the caller's thread: results "
        "arrive and every callback ran on the thread of the pipeline's loop. "
        "Part 'configs' enumerates EXHAUSTIVELY the finite product root kind (plain Stream or "
        "each offline-constructible source: from_periodic, from_iterable, from_textfile, "
        "filenames, from_q) x root asynchronous in {None, True, False} x root loop in {none, "
        "current, other} x child kind (plain map or each loop-requiring node: buffer, delay, "
        "rate_limit, timed_window, timed_window_unique, partition, latest, map_async) x child "
        "asynchronous in {None, True, False} x child loop in {none, current, other}. Part "
        "'chains' lets Hypothesis generate longer fluent chains, fan-out and joins of two "
        "pipelines. Oracle (a small model written from the Stream docstring and the property): "
        "a conflicting explicit request raises ValueError and nothing else does; afterwards all "
        "nodes of the pipeline share one loop and one effective mode; asynchronous=True without "
        "an explicit loop binds IOLoop.current() of the caller, the consumer runs on the "
        "caller's thread and no thread is started; a loop-requiring node with nothing declared "
        "or inherited uses the shared background loop (_io_loops[-1]). Non-trivial: the "
        "configuration mixes >= 2 declared modes/loops or contains a loop-requiring node.")
ASSUMPTIONS = ["part 'dask-default-client' runs with an in-process dask Client as default client; "
               "all other parts without one",
               "asynchronous=None and asynchronous=False are the same *effective* mode "
               "(blocking); only True vs not-True is compared between nodes",
               ]

NEEDS = ["buffer", "delay", "rate_limit", "timed_window", "timed_window_unique", "partition",
         "latest", "map_async"]
ROOTS = ["stream", "from_periodic", "from_iterable", "from_textfile", "filenames", "from_q"]
MODES = [None, True, False]
LOOPS = ["none", "current", "other"]


class Conflict(Exception):
    pass


class Model:
    """pipeline-wide binding: loop in {None,'current','other','bg'}, mode in {None,True,False}"""

    def __init__(self):
        self.loop = None
        self.mode = None

    def add(self, needs_loop, a, loop):
        lp = None if loop == "none" else loop
        if a is not None and self.mode is not None and a != self.mode:
            raise Conflict("mode")
        if lp is not None and self.loop is not None and lp != self.loop:
            raise Conflict("loop")
        mode = a if a is not None else self.mode
        lo = lp or self.loop
        if lo is None:
            if mode is True:
                lo = "current"
            elif mode is False or needs_loop:
                mode = False
                lo = "bg"
        # a mode that would now contradict an established loop kind is still a conflict only if
        # it was explicit; established bindings never change silently
        self.mode, self.loop = mode, lo

    def join(self, other):
        if self.mode is not None and other.mode is not None and self.mode != other.mode:
            raise Conflict("mode")
        if self.loop is not None and other.loop is not None and self.loop != other.loop:
            raise Conflict("loop")
        self.mode = self.mode if self.mode is not None else other.mode
        self.loop = self.loop or other.loop
        if self.loop is None and self.mode is not None:
            self.loop = "current" if self.mode else "bg"


def kw_for(a, loop, env):
    kw = {}
    if a is not None:
        kw["asynchronous"] = a
    if loop == "current":
        kw["loop"] = env["current"]
    elif loop == "other":
        kw["loop"] = env["other"]
    return kw


def make_root(kind, a, loop, env):
    kw = kw_for(a, loop, env)
    if kind == "stream":
        return Stream(**kw)
    if kind == "from_periodic":
        return Stream.from_periodic(lambda: 1, poll_interval=3600, **kw)
    if kind == "from_iterable":
        return Stream.from_iterable(iter(()), **kw)
    if kind == "from_textfile":
        import io
        return Stream.from_textfile(io.StringIO(""), poll_interval=3600, **kw)
    if kind == "filenames":
        return Stream.filenames("/nonexistent-dir-for-c19/*", poll_interval=3600, **kw)
    if kind == "from_q":
        return score.Stream.from_q(queue.Queue(), sleep_time=3600, **kw)
    raise AssertionError(kind)


async def _job(x):
    return x


def make_child(parent, kind, a, loop, env):
    kw = kw_for(a, loop, env)
    if kind == "map":
        # map() takes **kwargs for func; loop/asynchronous are not stream kwargs there
        return None
    if kind == "buffer":
        return parent.buffer(2, **kw)
    if kind == "delay":
        return parent.delay(3600, **kw)
    if kind == "rate_limit":
        return parent.rate_limit(3600, **kw)
    if kind == "timed_window":
        return parent.timed_window(3600, **kw)
    if kind == "timed_window_unique":
        return parent.timed_window_unique(3600, **kw)
    if kind == "partition":
        return parent.partition(2, **kw)
    if kind == "latest":
        return parent.latest(**kw)
    if kind == "map_async":
        # like map(), map_async(**kwargs) forwards keyword arguments to the user function:
        # loop/asynchronous cannot be requested on it
        return parent.map_async(_job)
    if kind == "union":
        return parent.union(**kw)
    if kind == "pluckable":
        return parent.sliding_window(1, **kw)
    raise AssertionError(kind)


def pipeline_nodes(n):
    seen, stack = [], [n]
    while stack:
        s = stack.pop()
        if any(s is t for t in seen):
            continue
        seen.append(s)
        stack.extend(u for u in s.upstreams if u is not None)
        stack.extend(d for d in s.downstreams if d is not None)
    return seen


def loop_name(lp, env):
    if lp is None:
        return None
    if lp is env["current"]:
        return "current"
    if lp is env["other"]:
        return "other"
    if score._io_loops and lp is score._io_loops[-1]:
        return "bg"
    return "unknown-loop"


def run_case(case):
    """build the configuration; returns (violations, classes, nontrivial)"""
    v = []
    threads_before = set(threading.enumerate())
    with install() as vloop:
        env = {"current": IOLoop.current(), "other": IOLoop(make_current=False)}
        try:
            models = []
            reals = []
            sig_ctx = "%s" % case["pipes"][0]["root"][0]
            declared = set()
            outcome = []
            for pipe in case["pipes"]:
                m = Model()
                kind, a, lp = pipe["root"]
                declared.add(("a", a))
                declared.add(("l", lp))
                exp_err = None
                try:
                    m.add(kind != "stream", a, lp)
                except Conflict as c:
                    exp_err = str(c)
                try:
                    node = make_root(kind, a, lp, env)
                    got_err = None
                except ValueError as e:
                    node, got_err = None, "ValueError"
                if (exp_err is None) != (got_err is None):
                    v.append(("%s:%s:%s" % (ID, "source" if kind != "stream" else "stream",
                                            "missing-conflict-error" if exp_err
                                            else "unexpected-error"),
                              "root %s: model %s, real %s" % (pipe["root"], exp_err, got_err)))
                    return v, [], True
                if node is None:
                    return v, ["conflict-raised"], True
                nodes = [node]
                for ck, ca, cl, parent in pipe["chain"]:
                    declared.add(("a", ca))
                    declared.add(("l", cl))
                    par = nodes[parent % len(nodes)]
                    if ck == "buffer" and type(par).__name__ == "from_textfile":
                        # from_textfile's instance attribute 'buffer' (its text buffer) shadows
                        # the buffer() method -- unrelated to C19: go through a map
                        par = par.map(lambda x: x)
                        nodes.append(par)
                    if ck == "map":
                        nodes.append(par.map(lambda x: x))
                        continue
                    exp_err = None
                    snap = (m.mode, m.loop)
                    try:
                        m.add(ck in NEEDS, ca, cl)
                    except Conflict as c:
                        exp_err = str(c)
                        m.mode, m.loop = snap
                    try:
                        child = make_child(par, ck, ca, cl, env)
                        got_err = None
                    except ValueError:
                        child, got_err = None, "ValueError"
                    if (exp_err is None) != (got_err is None):
                        v.append(("%s:%s:%s" % (ID, "loop-requiring-node" if ck in NEEDS
                                                else "plain-node",
                                                "missing-conflict-error" if exp_err
                                                else "unexpected-error"),
                                  "pipeline %s then child %s: model says %s, real %s" % (
                                      pipe["root"], (ck, ca, cl), exp_err or "fine", got_err or "fine")))
                        return v, [], True
                    if child is None:
                        outcome.append("conflict-raised")
                        # a rejected node must not stay half-attached?  (not stated) -- stop here
                        return v, ["conflict-raised"], True
                    nodes.append(child)
                models.append(m)
                reals.append(nodes)
            m = models[0]
            nodes = reals[0]
            if len(models) == 2:
                exp_err = None
                try:
                    m.join(models[1])
                except Conflict as c:
                    exp_err = str(c)
                try:
                    j = score.union(reals[0][-1], reals[1][-1])
                    got_err = None
                except ValueError:
                    j, got_err = None, "ValueError"
                if (exp_err is None) != (got_err is None):
                    v.append(("%s:join:%s" % (ID, "missing-conflict-error" if exp_err
                                              else "unexpected-error"),
                              "joining %s and %s: model %s real %s" % (
                                  case["pipes"][0], case["pipes"][1], exp_err, got_err)))
                    return v, [], True
                if j is None:
                    return v, ["conflict-raised"], True
                nodes = nodes + reals[1] + [j]
            # ---- all nodes share loop and effective mode --------------------------------------
            allnodes = pipeline_nodes(nodes[0])
            loops = {loop_name(n.loop, env) for n in allnodes}
            effs = {n.asynchronous is True for n in allnodes}
            if len(loops) > 1 or len(effs) > 1:
                v.append(("%s:pipeline-split" % ID, "nodes %s: loops %s, asynchronous %s" % (
                    [type(n).__name__ for n in allnodes], loops,
                    [n.asynchronous for n in allnodes])))
            got_loop = loop_name(nodes[-1].loop, env)
            got_mode = nodes[-1].asynchronous is True
            if got_loop != m.loop or got_mode != (m.mode is True):
                root_kind = case["pipes"][0]["root"][0]
                what = "async-moved-to-background-loop" if (m.mode is True and got_loop == "bg") \
                    else "wrong-binding"
                v.append(("%s:%s:%s" % (ID, "source" if root_kind != "stream" else "node", what),
                          "%s: expected loop=%s asynchronous=%s, real loop=%s asynchronous=%s" % (
                              case["pipes"], m.loop, m.mode, got_loop, nodes[-1].asynchronous)))
            # ---- async pipelines stay on the caller's loop and thread -------------------------
            new_threads = set(threading.enumerate()) - threads_before
            if m.mode is True and new_threads:
                v.append(("%s:thread-started-by-async-pipeline" % ID, "%s: new threads %s" % (
                    case["pipes"], [t.name for t in new_threads])))
            if m.loop == "bg" and len(new_threads) > 1:
                v.append(("%s:more-than-one-background-thread" % ID, str(new_threads)))
            if m.mode is True and m.loop == "current" and not v:
                seen = []
                nodes[-1].sink(lambda x: seen.append(threading.get_ident()))
                src = nodes[0]
                if type(src).__name__ == "Stream":
                    src.emit(1)
                    vloop.drain()
                    vloop.advance(1.0)
                    passes = all(ck in ("map", "buffer", "latest", "map_async", "union")
                                 for p in case["pipes"] for ck, _, _, _ in p["chain"])
                    if passes and len(case["pipes"]) == 1 and not seen:
                        v.append(("%s:nothing-ran-on-callers-loop" % ID, str(case["pipes"])))
                    if any(t != threading.get_ident() for t in seen):
                        v.append(("%s:callback-on-other-thread" % ID, str(case["pipes"])))
        finally:
            try:
                env["other"].close(all_fds=True)
            except Exception:
                pass
    kinds = {ck for p in case["pipes"] for ck, _, _, _ in p["chain"]} | \
        {p["root"][0] for p in case["pipes"]}
    mixes = len({d for d in declared if d[0] == "a" and d[1] is not None}) >= 2 or \
        len({d for d in declared if d[0] == "l" and d[1] != "none"}) >= 2
    needs = bool(kinds & set(NEEDS)) or any(p["root"][0] != "stream" for p in case["pipes"])
    return v, ["root:" + case["pipes"][0]["root"][0]] + ["child:" + k for k in kinds], mixes or needs


def execute(case):
    v, classes, nt = run_case(case)
    return Result(v, nontrivial=nt, classes=classes)


def enumerate_configs(tier):
    for rk, ra, rl in itertools.product(ROOTS, MODES, LOOPS):
        yield {"pipes": [{"root": [rk, ra, rl], "chain": []}]}
        for ck, ca, cl in itertools.product(["map"] + NEEDS, MODES, LOOPS):
            if ck in ("map", "map_async") and (ca is not None or cl != "none"):
                continue
            yield {"pipes": [{"root": [rk, ra, rl], "chain": [[ck, ca, cl, 0]]}]}


@st.composite
def chain_case(draw, tier="quick"):
    def pipe():
        root = [draw(st.sampled_from(ROOTS + ["stream", "stream"])), draw(st.sampled_from(MODES)),
                draw(st.sampled_from(["none", "none", "current", "other"]))]
        chain = []
        for _ in range(draw(st.integers(0, 5))):
            ck = draw(st.sampled_from(["map", "map", "union", "pluckable"] + NEEDS))
            if ck in ("map", "map_async"):
                chain.append([ck, None, "none", draw(st.integers(0, 5))])
            else:
                chain.append([ck, draw(st.sampled_from([None, None, True, False])),
                              draw(st.sampled_from(["none", "none", "none", "current", "other"])),
                              draw(st.integers(0, 5))])
        return {"root": root, "chain": chain}
    pipes = [pipe()]
    if draw(st.integers(0, 2)) == 0:
        pipes.append(pipe())
    return {"pipes": pipes}


def enumerate_with_client(tier):
    for rk in ROOTS:
        yield {"with_client": True, "root": rk, "child": None}
        for ck in ("buffer", "timed_window", "map"):
            yield {"with_client": True, "root": rk, "child": ck}


def execute_with_client(case):
    """asynchronous=True must bind the caller's loop even when a (blocking) dask client is the
    default client; only undeclared loop-requiring nodes may use the client's loop"""
    from props.c20 import client
    c = client()
    v = []
    with install() as vloop:
        env = {"current": IOLoop.current(), "other": None}
        root = make_root(case["root"], True, "none", env)
        node = root
        if case["child"] == "map":
            node = root.map(lambda x: x)
        elif case["child"]:
            par = root.map(lambda x: x) if case["root"] == "from_textfile" else root
            node = make_child(par, case["child"], None, "none", env)
        for n in pipeline_nodes(node):
            if n.loop is not env["current"]:
                where = "the dask client's loop" if n.loop is c.loop else repr(n.loop)
                v.append(("%s:async-bound-to-dask-client-loop" % ID,
                          "%s(asynchronous=True)%s with a default dask client: %s is bound to %s, "
                          "not to the caller's current loop" % (
                              case["root"], "." + case["child"] if case["child"] else "",
                              type(n).__name__, where)))
                break
    return Result(v, nontrivial=True, classes=["dask-default-client"])


def enumerate_kafka(tier):
    for nparts in (1, 2):
        for nmsg in (1, 3):
            yield {"kafka": True, "nparts": nparts, "nmsg": nmsg}


def execute_kafka(case):
    """the batched Kafka source declared asynchronous: polling, emission and the offset-commit
    callbacks all stay on the caller's loop and thread (in-memory client of C09)"""
    from props import c09
    ck = c09.ck
    ck.BROKER.reset()
    ck.BROKER.create(c09.TOPIC, case["nparts"])
    for p_ in range(case["nparts"]):
        for o in range(case["nmsg"]):
            ck.BROKER.produce(c09.TOPIC, p_, ("m", p_, o))
    v = []
    before = set(threading.enumerate())
    loops_before = list(score._io_loops)
    kcase = {"nparts": case["nparts"], "max_batch": 2, "reset": "earliest", "refresh": False}
    with c09.Incarnation(kcase, None, None) as inc:
        main = threading.get_ident()
        for _ in range(6):
            while inc.cons.pending:
                inc.cons.finish(0)
                inc.loop.drain()
            nt = inc.loop.next_timer()
            if nt is None:
                break
            inc.loop.advance_to(nt)
        import time as _t
        _t.sleep(0.05)   # a stray background thread gets the chance to act
        commits = [c for c in ck.BROKER.calls if c[0] == "commit"]
        nodes = pipeline_nodes(inc.kafka_source)
        if any(n.loop is not IOLoop.current() for n in nodes):
            v.append(("%s:kafka-source:not-on-callers-loop" % ID, str(case)))
    new = set(threading.enumerate()) - before
    if new or list(score._io_loops) != loops_before:
        v.append(("%s:kafka-source:thread-started-by-async-source" % ID,
                  "%s: new threads %s, background loops %d -> %d" % (
                      case, [t.name for t in new], len(loops_before), len(score._io_loops))))
    if not commits:
        v.append(("%s:kafka-source:no-commit-on-callers-loop" % ID,
                  "%s: batches were processed but no offset commit ran while the caller's loop "
                  "was driven" % case))
    return Result(v, nontrivial=True, classes=["kafka-source"])


def enumerate_blocking(tier):
    for chain in (["map_async"], ["buffer", "map_async"], ["map_async", "map_async"],
                  ["map_async", "buffer"], ["buffer"], ["delay"], ["rate_limit", "map_async"]):
        for start in (False, True):
            yield {"blocking": True, "chain": chain, "start": start}
    # the loop handed over explicitly, no mode declared anywhere: still a blocking pipeline
    for chain in (["buffer"], ["map_async"], ["map"], []):
        yield {"blocking": True, "chain": chain, "start": False, "explicit_loop": True}


def execute_blocking(case):
    """a blocking pipeline (nothing declared) in operation: every callback - mapped coroutine,
    consumer - runs on the thread of the pipeline's own (shared background) loop and the results
    arrive, also after start() was called on it from the caller's thread"""
    import time as _t
    job_threads, seen = [], []

    async def job(x):
        job_threads.append(threading.get_ident())
        return x + 1
    src = Stream(loop=score.get_io_loop(False)) if case.get("explicit_loop") else Stream()
    node, n_jobs = src, 0
    for k in case["chain"]:
        if k == "map":
            node = node.map(lambda x: x)
        elif k == "map_async":
            node = node.map_async(job)
            n_jobs += 1
        elif k == "buffer":
            node = node.buffer(4)
        elif k == "delay":
            node = node.delay(0.005)
        else:
            node = node.rate_limit(0.001)
    sk = node.sink(lambda x: seen.append((x, threading.get_ident())))
    v = []
    what = ("Stream(loop=L)." if case.get("explicit_loop") else "Stream().") + \
        ".".join(case["chain"] + ["sink"]) + (" + start()" if case["start"] else "")
    loop = node.loop
    tid, ev = [], threading.Event()
    loop.add_callback(lambda: (tid.append(threading.get_ident()), ev.set()))
    ev.wait(10)
    if not tid or tid[0] == threading.get_ident():
        return Result([("%s:blocking:no-background-loop-thread" % ID, what)], nontrivial=True)
    if case["start"]:
        sk.start()      # "Start any upstream sources": reaches every node above the sink
    n = 4

    def produce():
        for i in range(n):
            src.emit(i)
    th = threading.Thread(target=produce, daemon=True)
    th.start()
    th.join(20)
    t0 = _t.time()
    while len(seen) < n and _t.time() - t0 < 20:
        _t.sleep(0.005)
    if th.is_alive() or len(seen) < n:
        # (elapsed real time enters this verdict: 20 s for work that takes milliseconds)
        return Result([("%s:blocking:%s" % (ID, "emit-never-returns" if th.is_alive()
                                          else "results-never-delivered"),
                        "%s: %d of %d results after 20 s, producer thread %s" % (
                            what, len(seen), n, "blocked in emit" if th.is_alive() else "done"))],
                      nontrivial=True, abort=True)
    if [x for x, _ in seen] != [i + n_jobs for i in range(n)]:
        v.append(("%s:blocking:wrong-results" % ID, "%s: %s" % (what, [x for x, _ in seen])))
    off = [t for t in job_threads + [t for _, t in seen] if t != tid[0]]
    if off:
        v.append(("%s:blocking:callback-off-the-pipeline-loop" % ID,
                  "%s: %d callbacks ran on another thread than the pipeline's loop" % (
                      what, len(off))))
    sk.destroy()
    return Result(v, nontrivial=True, classes=["blocking-runtime"] +
                  (["start-from-caller-thread"] if case["start"] else []))


def enumerate_fresh(tier):
    for first in ("buffer", "map_async", "latest", "from_periodic"):
        for then in ("stream", "from_periodic", "from_q"):
            for child in (None, "buffer", "timed_window"):
                yield {"fresh": True, "first": first, "then": then, "child": child}


def execute_fresh(case):
    """the moment the shared background loop comes into being (first blocking node that needs a
    loop) must not change what the caller's thread regards as its current loop: a pipeline
    declared asynchronous right afterwards still binds the caller's loop"""
    v = []
    saved = list(score._io_loops)
    del score._io_loops[:]          # the next blocking loop-requiring node creates a fresh one
    try:
        with install():
            env = {"current": IOLoop.current(), "other": None}
            if case["first"] == "from_periodic":
                blocking = make_root("from_periodic", None, "none", env)
            else:
                blocking = make_child(Stream(), case["first"], None, "none", env)
            if blocking.loop is env["current"] or not score._io_loops:
                v.append(("%s:fresh:blocking-node-not-on-background-loop" % ID, str(case)))
            if IOLoop.current() is not env["current"]:
                v.append(("%s:fresh:background-loop-became-the-callers-current-loop" % ID,
                          "%s: after building a blocking %s, IOLoop.current() in the caller's "
                          "thread is no longer the caller's loop" % (case, case["first"])))
            root = make_root(case["then"], True, "none", env)
            node = make_child(root, case["child"], None, "none", env) if case["child"] else root
            for n in pipeline_nodes(node):
                if n.loop is not env["current"]:
                    v.append(("%s:fresh:async-pipeline-bound-to-background-loop" % ID,
                              "%s: %s(asynchronous=True) built right after the first blocking "
                              "node is bound to %s" % (case, type(n).__name__,
                                                       "the background loop" if score._io_loops and
                                                       n.loop is score._io_loops[-1] else repr(n.loop))))
                    break
    finally:
        for lp in score._io_loops:
            try:
                lp.add_callback(lp.stop)     # let the extra background thread end
            except Exception:
                pass
        score._io_loops[:] = saved
    seen = set()
    v = [x for x in v if not (x[0] in seen or seen.add(x[0]))]
    return Result(v, nontrivial=True, classes=["fresh-background-loop"])


PARTS = [Part("fresh-background-loop", None, execute_fresh, quick=0, thorough=0, shards=1,
              exhaustive=enumerate_fresh),
         Part("blocking-runtime", None, execute_blocking, quick=0, thorough=0, shards=1,
              exhaustive=enumerate_blocking),
         Part("kafka-source", None, execute_kafka, quick=0, thorough=0, shards=1,
              exhaustive=enumerate_kafka),
         Part("configs", None, execute, quick=0, thorough=0, shards=1, exhaustive=enumerate_configs),
         Part("dask-default-client", None, execute_with_client, quick=0, thorough=0, shards=1,
              exhaustive=enumerate_with_client),
         Part("chains", chain_case, execute, quick=600, thorough=4000, shards=8)]
