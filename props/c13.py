"""C13 — rate_limit spaces emissions by at least the interval and keeps order; delay keeps
order and count."""
from hypothesis import strategies as st

from harness import schedule, local
from harness.elements import prov
from harness.runner import Part, Result

ID = "C13"
RULE = ("Pipeline: 1-3 entries (concurrent producers, awaited or fire-and-forget) -> union -> "
        "rate_limit(interval) | delay(interval) -> consumer (instant or slow, finished by the "
        "harness); arrival times on a 1/8 s virtual grid: idle gaps >=, <, = interval and bursts. "
        "Oracle for rate_limit: consecutive deliveries (consumer called) are >= interval apart "
        "(exact grid arithmetic); delivery order = arrival order; nothing lost after the finish "
        "phase; an element arriving when the line has been idle for >= interval (nothing "
        "waiting, last delivery >= interval ago) is delivered at its arrival instant. delay: "
        "order and count only. Non-trivial: >= 1 idle gap >= interval and >= 1 burst of >= 3 "
        "arrivals at one instant.")
ASSUMPTIONS = ["virtual clock: time comparisons are exact (multiples of 1/8 s)"]


@st.composite
def case_strategy(draw, tier="quick"):
    n_ent = draw(st.integers(1, 3))
    nodes = [{"k": "entry", "u": [], "p": {}, "t": "E"} for _ in range(n_ent)]
    src = n_ent - 1
    if n_ent > 1:
        nodes.append({"k": "union", "u": list(range(n_ent)), "p": {}, "t": "E"})
        src = len(nodes) - 1
    kind = draw(st.sampled_from(["rate_limit", "rate_limit", "rate_limit", "delay"]))
    iv = draw(st.sampled_from([0.25, 0.5, 1.0, 2.0, 1.5]))
    # the interval may be given as a duration string (documented: anything pandas.Timedelta reads)
    spell = draw(st.sampled_from([None, None, "str", "np"]))
    ivs = {0.25: ["250ms", "0.25s"], 0.5: ["500ms", "0.5s"], 1.0: ["1s", "1000ms"],
           2.0: ["2s", "1s 1000ms"], 1.5: ["1.5s", "1s 500ms", "1500ms"]}
    p_ = {"i": iv}
    if spell == "str":
        p_["i_str"] = draw(st.sampled_from(ivs[iv]))
    elif spell == "np":
        # a numpy scalar is a number of seconds like any other
        # (not float32: under NumPy 2 `time() + np.float32(i)` is a float32, see DESIGN 8.5)
        p_["i_np"] = draw(st.sampled_from(["float64"] + (
            ["int64", "int64", "int32"] if iv == int(iv) else [])))
    nodes.append({"k": kind, "u": [src], "p": p_, "t": "E"})
    nodes.append({"k": "sink", "u": [len(nodes) - 1], "p": {}, "t": None})
    spec = {"nodes": nodes, "fb": None}
    mode = draw(st.sampled_from(["sync", "sync", "fut", "coro"]))
    emit = st.tuples(st.sampled_from(["emit", "emit", "pemit"]), st.integers(0, n_ent - 1),
                     st.integers(0, 5))
    burst = st.lists(emit, min_size=3, max_size=5)
    gap = st.tuples(st.just("adv"), st.sampled_from(
        [iv, iv, 2 * iv, iv / 2, iv + 0.125, max(0.125, iv - 0.125), 0.125, 3 * iv,
         iv - 2.0 ** -11, 2.0 ** -11]))   # (just under half a millisecond before / after a slot)
    fin = st.tuples(st.just("fin"), st.just(0), st.integers(0, 2))
    step = st.one_of(emit.map(lambda e: [e]), burst, gap.map(lambda g: [g]),
                     fin.map(lambda f: [f]), gap.map(lambda g: [g]))
    lo = draw(st.sampled_from([2, 5, 10]))
    steps = draw(st.lists(step, min_size=lo, max_size=18))
    acts = [list(a) for s in steps for a in s][:60]
    # optionally detach the timing node from its upstream in mid-run and attach it again:
    # destroy() only disconnects; what the node already accepted must still be delivered
    detach = None
    if draw(st.integers(0, 3)) == 0 and len(acts) >= 2:
        i = draw(st.integers(0, len(acts) - 1))
        j = draw(st.integers(i, len(acts)))
        detach = [i, j]
    # start() is propagated upstream from any node and must be harmless on a running pipeline
    starts = sorted(draw(st.sets(st.integers(0, max(len(acts) - 1, 0)), max_size=2))) \
        if draw(st.integers(0, 2)) == 0 else []
    # deliveries in which the consumer raises: the failure goes back to the producer of that
    # element; spacing and order of all deliveries (failed ones are deliveries too) stay as they are
    fail = sorted(draw(st.sets(st.integers(0, 8), min_size=1, max_size=2))) \
        if kind == "rate_limit" and draw(st.integers(0, 3)) == 0 else []
    # (rate_limit only: delay forwards from one long-lived coroutine, which a raising consumer
    # ends - the "worker dies" observation of DESIGN 8.5, outside C13)
    return {"spec": spec, "cmodes": {str(len(nodes) - 1): mode}, "actions": acts,
            "detach": detach, "starts": starts, "fail": fail}


def execute(case):
    spec = case["spec"]
    cm = {int(k): m for k, m in case["cmodes"].items()}
    nodes = spec["nodes"]
    sink = len(nodes) - 1
    node = sink - 1
    step_hook = None
    if case.get("detach") or case.get("starts"):
        i0, j0 = case.get("detach") or (-1, -1)
        starts = set(case.get("starts") or [])

        def step_hook(k, built):
            n = built.nodes[node]
            up = built.nodes[nodes[node]["u"][0]]
            if k == i0:
                n.destroy()
            if k == j0 and not n.upstreams:
                up.connect(n)
            if k in starts:
                built.nodes[sink].start()
    run = schedule.execute(case, consumer_modes=cm, step_hook=step_hook,
                           faults={sink: set(case.get("fail", []))} if case.get("fail") else None)
    ev = run.log.events
    kind = nodes[node]["k"]
    iv = nodes[node]["p"]["i"]
    arr = [(min(prov(e[3])), e[5]) for e in ev if e[0] == "arr" and e[1] == node]
    dl = [(min(prov(e[3])), e[4]) for e in ev if e[0] == "cc" and e[1] == sink]
    v = []
    ids_arr = [a for a, _ in arr]
    ids_dl = [d for d, _ in dl]
    if ids_dl != ids_arr[:len(ids_dl)]:
        v.append(("%s:%s:order" % (ID, kind), "arrived %s delivered %s" % (ids_arr, ids_dl)))
    elif len(ids_dl) != len(ids_arr):
        v.append(("%s:%s:lost" % (ID, kind), "arrived %d delivered %d after the finish phase"
                  % (len(ids_arr), len(ids_dl))))
    if kind == "rate_limit":
        for (a, ta), (b, tb) in zip(dl, dl[1:]):
            if tb - ta < iv:
                v.append(("%s:rate_limit:spacing" % ID,
                          "interval %s: element %d at %s, element %d at %s" % (iv, a, ta, b, tb)))
                break
        t_arr = dict(arr)
        t_dl = dict(dl)
        for j, (k, ta) in enumerate(arr):
            if k not in t_dl:
                continue
            earlier = [t_dl[x] for x, _ in arr[:j] if x in t_dl]
            waiting = any(x not in t_dl or t_dl[x] > ta for x, _ in arr[:j])
            if not waiting and (not earlier or ta >= max(earlier) + iv) and t_dl[k] != ta:
                v.append(("%s:rate_limit:needless-delay" % ID,
                          "element %d arrived at %s on an idle line (last delivery %s, interval "
                          "%s) but was delivered at %s" % (k, ta, max(earlier) if earlier else None,
                                                           iv, t_dl[k])))
                break
    times = [t for _, t in arr]
    idle_gap = any(b - a >= iv for a, b in zip(times, times[1:]))
    burst = any(times.count(t) >= 3 for t in set(times))
    classes = (["detach-reattach"] if case.get("detach") else []) + \
        (["failing-deliveries"] if case.get("fail") else []) + \
        ["node:" + kind, "consumer:" + list(cm.values())[0], "entries:%d" % (
        len([n for n in nodes if n["k"] == "entry"]))]
    if idle_gap:
        classes.append("idle-gap")
    if burst:
        classes.append("burst>=3")
    return Result(v, nontrivial=idle_gap and burst, classes=classes)


PARTS = [Part("arrival-patterns", case_strategy, execute, quick=2400, thorough=15000)]
