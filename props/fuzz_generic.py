#!/venv/bin/python
"""Coverage-guided tier (atheris/libFuzzer driving Hypothesis' fuzz_one_input): the byte string
chooses a case of <ID>/<part> through the part's own strategy, the part's own execute() is the
oracle.  streamz is instrumented for coverage feedback.  Failing cases (violations whose signature
is not a known finding) are appended to <out>/failures.jsonl; <out>/stats.json holds the number of
executions.

usage: fuzz_generic.py <ID> <part> --out DIR [libFuzzer flags]
"""
import json
import os
import sys

HERE = os.path.dirname(os.path.dirname(os.path.abspath(__file__)))
REPO = os.environ.get("VERIF_REPO", "/repo")
for p in (os.path.join(HERE, ".deps"), HERE, REPO):
    if os.path.isdir(p):
        sys.path.insert(0, p)
sys.setrecursionlimit(10000)
import logging  # noqa: E402
logging.disable(logging.CRITICAL)
import warnings  # noqa: E402
warnings.simplefilter("ignore")
import atheris  # noqa: E402

pid, part_name = sys.argv[1], sys.argv[2]
out = "."
argv = [sys.argv[0]]
it = iter(sys.argv[3:])
for a in it:
    if a == "--out":
        out = next(it)
    else:
        argv.append(a)

with atheris.instrument_imports(include=["streamz"]):
    import streamz  # noqa: F401
    import streamz.core  # noqa: F401
    import streamz.dataframe  # noqa: F401
    import streamz.dataframe.aggregations  # noqa: F401
    import streamz.sources  # noqa: F401

import importlib  # noqa: E402
from hypothesis import given, settings, HealthCheck  # noqa: E402
from harness import runner  # noqa: E402

mod = importlib.import_module("props." + pid.lower())
part = [p for p in mod.PARTS if p.name == part_name][0]
known = {e["signature"] for e in runner.load_known(pid)}
state = {"n": 0, "sigs": set()}


@settings(database=None, deadline=None, suppress_health_check=list(HealthCheck))
@given(part.strategy("thorough"))
def test(case):
    case = dict(case)
    case["part"] = part.name
    try:
        res = part.execute(case)
    except Exception as e:  # noqa: BLE001
        if runner.from_repo(e.__traceback__):
            res = runner.Result([(runner.exc_signature(pid, e), repr(e))])
        else:
            return
    state["n"] += 1
    for sig, _ in res.violations:
        if sig not in known and sig not in state["sigs"] and len(state["sigs"]) < 5:
            state["sigs"].add(sig)
            with open(os.path.join(out, "failures.jsonl"), "a") as f:
                f.write(json.dumps(case, default=str) + "\n")
    if state["n"] % 50 == 0:
        with open(os.path.join(out, "stats.json"), "w") as f:
            json.dump({"executions": state["n"]}, f)


atheris.Setup(argv, test.hypothesis.fuzz_one_input)
atheris.Fuzz()
