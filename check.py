#!/venv/bin/python
"""Single entry point:  check.py <ID> [--tier quick|thorough] [--replay FILE] [--part NAME]

exit 0: property held on everything explored; exit 1 + "VIOLATION property=<id> replay=<path>";
exit 2: harness error (never reported as a violation).
The tree under test is VERIF_REPO (default /repo): its working tree is imported as is.
"""
import argparse
import importlib
import os
import sys


def main():
    ap = argparse.ArgumentParser()
    ap.add_argument("pid")
    ap.add_argument("--tier", default=os.environ.get("VERIF_TIER", "quick"),
                    choices=["quick", "thorough"])
    ap.add_argument("--replay")
    ap.add_argument("--part")
    a = ap.parse_args()

    if os.environ.get("PYTHONHASHSEED") != "0":
        os.environ["PYTHONHASHSEED"] = "0"
        os.execv(sys.executable, [sys.executable] + sys.argv)

    here = os.path.dirname(os.path.abspath(__file__))
    repo = os.environ.get("VERIF_REPO", "/repo")
    os.environ["VERIF_REPO"] = repo
    sys.dont_write_bytecode = True
    deps = os.path.join(here, ".deps")
    for p in (deps, here, repo):
        if os.path.isdir(p):
            sys.path.insert(0, p)
    sys.setrecursionlimit(10000)
    import logging
    logging.disable(logging.CRITICAL)  # streamz logs every user exception; we inject thousands
    import warnings
    warnings.simplefilter("ignore")
    try:
        seed_value = int(os.environ.get("VERIF_SEED", "1") or "1")
    except ValueError:
        seed_value = 1
    try:
        import streamz
        if not os.path.abspath(streamz.__file__).startswith(os.path.abspath(repo)):
            sys.stderr.write("HARNESS ERROR: streamz imported from %s, not %s\n"
                             % (streamz.__file__, repo))
            return 2
        from harness import runner
        mod = importlib.import_module("props." + a.pid.lower())
    except Exception:
        import traceback
        traceback.print_exc()
        sys.stderr.write("HARNESS ERROR: import failed\n")
        return 2
    # watchdog: a hang is "inconclusive" (exit 2), never a violation and never an endless run
    import signal

    def on_alarm(signum, frame):
        sys.stderr.write("HARNESS ERROR: time budget exceeded (inconclusive)\n")
        sys.stderr.flush()
        try:
            import multiprocessing
            for c in multiprocessing.active_children():
                c.kill()
        finally:
            os._exit(2)
    signal.signal(signal.SIGALRM, on_alarm)
    signal.alarm(int(os.environ.get("VERIF_TIMEOUT", "900" if a.tier == "quick" else "14400")))
    try:
        if a.replay:
            return runner.replay(mod, a.replay)
        return runner.run_property(mod, a.tier, seed_value, a.part)
    except Exception:
        import traceback
        traceback.print_exc()
        sys.stderr.write("HARNESS ERROR\n")
        return 2


if __name__ == "__main__":
    rc = main()
    sys.stdout.flush()
    sys.stderr.flush()
    os._exit(rc)
