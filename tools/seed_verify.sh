#!/bin/bash
# usage: seed_verify.sh <PROP> <src-dir containing patch.diff demo.py notes.md> <name> [checks "C01,C02"] [--nosuite]
# Confirms a seeded change in a scratch worktree of /repo HEAD: demo passes clean, fails with the
# change; the repository suite passes with it; then runs our checks against the changed tree.
PROP=$1; SRC=$2; NAME=$3; CHECKS=${4:-$PROP}; NOSUITE=$5
WT=/tmp/sv_$NAME; OUT=/verif/seeded/$NAME
rm -rf $WT; git -C /repo worktree add -q $WT HEAD || exit 3
mkdir -p $OUT; cp -r $SRC/* $OUT/ 2>/dev/null; rm -rf $OUT/__pycache__
cd $WT
PYTHONPATH=$WT timeout 120 /venv/bin/python $OUT/demo.py > $OUT/demo_clean.log 2>&1; CLEAN=$?
if ! git apply $OUT/patch.diff 2> $OUT/apply.log; then
  if ! git apply --3way $OUT/patch.diff 2>> $OUT/apply.log; then echo "$NAME: PATCH DOES NOT APPLY"; git -C /repo worktree remove --force $WT; exit 4; fi
fi
PYTHONPATH=$WT timeout 120 /venv/bin/python $OUT/demo.py > $OUT/demo_changed.log 2>&1; CHANGED=$?
SUITE=skipped
if [ -z "$NOSUITE" ]; then
  PYTHONPATH=$WT timeout 1500 /venv/bin/python -m pytest -q -p no:cacheprovider --timeout=900 -q > $OUT/suite.log 2>&1; SUITE=$?
fi
RES=""
for c in ${CHECKS//,/ }; do
  VERIF_OUT=$WT/.verif_out VERIF_REPO=$WT timeout 900 /venv/bin/python /verif/check.py $c --tier quick > $OUT/check_$c.log 2>&1; rc=$?
  sigs=$(grep "signature:" $OUT/check_$c.log | sed 's/.*signature: //' | tr '\n' ' ')
  RES="$RES $c:rc=$rc[$sigs]"
done
cd /; git -C /repo worktree remove --force $WT
echo "$NAME: demo clean=$CLEAN changed=$CHANGED suite=$SUITE checks:$RES"
echo "{\"property\": \"$PROP\", \"name\": \"$NAME\", \"demo_exit_clean\": $CLEAN, \"demo_exit_changed\": $CHANGED, \"suite_exit_with_change\": \"$SUITE\", \"checks\": \"$RES\", \"repo_head\": \"$(git -C /repo log --format=%h -1)\"}" > $OUT/result.json
