#!/venv/bin/python
"""setup_cmd: offline; makes sure hypothesis imports under /venv (installs it from the offline
wheelhouse into /verif/.deps otherwise) and that atheris is available for the C17 thorough tier."""
import os, subprocess, sys
HERE = os.path.dirname(os.path.dirname(os.path.abspath(__file__)))
DEPS = os.path.join(HERE, ".deps")
WH = "/opt/veriftools/wheels"
sys.path.insert(0, DEPS)

def have(mod):
    try:
        __import__(mod)
        return True
    except Exception:
        return False

def install(pkg):
    os.makedirs(DEPS, exist_ok=True)
    return subprocess.call([sys.executable, "-m", "pip", "install", "--no-index", "--find-links", WH,
                            "--target", DEPS, "--quiet", pkg])

rc = 0
if not have("hypothesis"):
    rc |= install("hypothesis")
if not have("atheris"):
    if install("atheris") != 0:
        print("note: atheris not installable; C17 thorough tier skips its fuzz part")
for d in ("evidence", "replays", ".work"):
    os.makedirs(os.path.join(HERE, d), exist_ok=True)
sys.exit(0 if have("hypothesis") else 1)
