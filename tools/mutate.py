#!/venv/bin/python
"""Mechanical mutation sweep (no LLM): small AST mutations of the repository's sources are applied
to a scratch copy one at a time and the relevant quick checks are run against it.  A mutant that
no check reports is a *survivor* to be triaged by hand (equivalent mutant, change outside the 20
properties, or a blind spot of the checks).

usage: mutate.py <file under streamz/> <n mutants> <seed> <out.json> [checks "C01,C02"]
"""
import ast
import copy
import json
import os
import random
import shutil
import subprocess
import sys
import tempfile

REPO = "/repo"
VERIF = os.path.dirname(os.path.dirname(os.path.abspath(__file__)))
RELEVANT = {
    "streamz/core.py": "C01,C02,C03,C04,C05,C08,C10,C13,C14,C15,C16,C19",
    "streamz/sources.py": "C17,C18,C09,C19",
    "streamz/sinks.py": "C05,C04,C15,C16,C01",
    "streamz/orderedweakset.py": "C01,C15",
    "streamz/dask.py": "C20",
    "streamz/collection.py": "C06,C07,C11,C12",
    "streamz/dataframe/aggregations.py": "C06,C07,C11,C12",
    "streamz/dataframe/core.py": "C06,C07,C11,C12",
}

CMP = {ast.Eq: ast.NotEq, ast.NotEq: ast.Eq, ast.Lt: ast.LtE, ast.LtE: ast.Lt, ast.Gt: ast.GtE,
       ast.GtE: ast.Gt, ast.Is: ast.IsNot, ast.IsNot: ast.Is, ast.In: ast.NotIn, ast.NotIn: ast.In}


def sites(tree):
    """-> list of (lineno, kind, mutator(node copy) )"""
    out = []
    for node in ast.walk(tree):
        ln = getattr(node, "lineno", None)
        if isinstance(node, ast.Compare) and type(node.ops[0]) in CMP:
            out.append((ln, "cmp:%s" % type(node.ops[0]).__name__, node))
        elif isinstance(node, ast.BoolOp):
            out.append((ln, "boolop:%s" % type(node.op).__name__, node))
        elif isinstance(node, ast.Constant) and isinstance(node.value, bool):
            out.append((ln, "bool:%s" % node.value, node))
        elif isinstance(node, ast.Constant) and type(node.value) is int and 0 <= node.value <= 2:
            out.append((ln, "int:%d" % node.value, node))
        elif isinstance(node, ast.Expr) and isinstance(node.value, ast.Call):
            out.append((ln, "del-call", node))
        elif isinstance(node, ast.UnaryOp) and isinstance(node.op, ast.Not):
            out.append((ln, "drop-not", node))
    return out


def apply(node, kind):
    if kind.startswith("cmp:"):
        node.ops[0] = CMP[type(node.ops[0])]()
    elif kind.startswith("boolop:"):
        node.op = ast.Or() if isinstance(node.op, ast.And) else ast.And()
    elif kind.startswith("bool:"):
        node.value = not node.value
    elif kind.startswith("int:"):
        node.value = node.value + 1
    elif kind == "del-call":
        node.value = ast.Constant(value=None)
    elif kind == "drop-not":
        # `not x` -> `not not x`, i.e. the truth value of x
        node.operand = ast.UnaryOp(op=ast.Not(), operand=node.operand)


def main():
    rel, n, seed, outp = sys.argv[1], int(sys.argv[2]), int(sys.argv[3]), sys.argv[4]
    checks = sys.argv[5] if len(sys.argv) > 5 else RELEVANT[rel]
    src = open(os.path.join(REPO, rel)).read()
    tree = ast.parse(src)
    # only code inside functions (not module-level constants / imports), skip docstrings
    all_sites = sites(tree)
    rng = random.Random(seed)
    idxs = list(range(len(all_sites)))
    rng.shuffle(idxs)
    results = []
    if os.path.exists(outp):
        results = json.load(open(outp))
    done = {(r["line"], r["kind"]) for r in results}
    count = 0
    for i in idxs:
        if count >= n:
            break
        ln, kind, _ = all_sites[i]
        if (ln, kind) in done or ln is None:
            continue
        t2 = copy.deepcopy(tree)
        node2 = sites(t2)[i][2]
        apply(node2, kind)
        try:
            new_src = ast.unparse(t2)
            compile(new_src, rel, "exec")
        except Exception:
            continue
        d = tempfile.mkdtemp(prefix="mutsweep.")
        try:
            shutil.copytree(os.path.join(REPO, "streamz"), os.path.join(d, "repo", "streamz"),
                            ignore=shutil.ignore_patterns("__pycache__"))
            with open(os.path.join(d, "repo", rel), "w") as f:
                f.write(new_src)
            env = dict(os.environ, VERIF_REPO=os.path.join(d, "repo"), VERIF_OUT=os.path.join(d, "out"),
                       VERIF_TIMEOUT="300")
            verdict = {}
            for c in checks.split(","):
                try:
                    p = subprocess.run([sys.executable, os.path.join(VERIF, "check.py"), c],
                                       env=env, capture_output=True, text=True, timeout=400)
                    sigs = [l.split("signature:")[1].strip() for l in p.stdout.splitlines()
                            if "signature:" in l]
                    verdict[c] = {"rc": p.returncode, "sigs": sigs[:4]}
                    if p.returncode == 1:
                        break   # reported: no need to run the other checks
                except subprocess.TimeoutExpired:
                    verdict[c] = {"rc": "timeout"}
            caught = any(v.get("rc") == 1 for v in verdict.values())
            broke = any(v.get("rc") in (2, "timeout") for v in verdict.values())
            line_text = src.splitlines()[ln - 1].strip() if ln else ""
            results.append({"file": rel, "line": ln, "kind": kind, "text": line_text,
                            "caught": caught, "harness_error_or_timeout": broke and not caught,
                            "verdict": verdict})
            json.dump(results, open(outp, "w"), indent=1)
            print("%s:%d %s -> %s | %s" % (rel, ln, kind, "CAUGHT" if caught else (
                "ERROR" if broke else "survived"), line_text[:70]), flush=True)
            count += 1
        finally:
            shutil.rmtree(d, ignore_errors=True)


if __name__ == "__main__":
    main()
