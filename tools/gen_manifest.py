#!/venv/bin/python
"""Regenerates /verif/MANIFEST.json from the table below (keeps it schema-valid at all times)."""
import json, os
HERE = os.path.dirname(os.path.dirname(os.path.abspath(__file__)))
props = [json.loads(l) for l in open(os.path.join(HERE, "properties.jsonl"))]

# id -> (technique, level text, level note, design ref)
CHECKS = {
 "C01": ("Hypothesis-generated pipeline specs + inputs vs reference model (model-based differential), shrunk to a replay file",
         "Generated-input search: thousands of random typed pipeline graphs x interleaved inputs per run, global emission log compared with an independent reference model of the docstrings. Exploration only: says 'held on everything generated'.",
         "Trusted: the reference model (harness/model.py, written from docstrings), the closed function catalogue; parameters outside the documented ones are not generated.",
         "DESIGN.md section 4 C01"),
 "C02": ("Hypothesis-generated pipelines + event-loop schedules on a harness-owned virtual loop; local per-node oracles (observed output = documented function of observed input)",
         "Generated-schedule search: the harness owns the event loop and the clock, so completion orders and timer coincidences are generated values; thousands of (pipeline, schedule) pairs per run; every node's observed output is compared with the documented function of its observed input. Exploration only.",
         "Trusted: harness/vloop.py (virtual loop), harness/local.py (local oracles), interleavings at event-loop granularity only.",
         "DESIGN.md section 4 C02"),
 "C03": ("Hypothesis-generated pipelines + schedules; history invariants over the event log (no early completion, bounds at every log position, no deadlock after a finish phase) + threaded blocking-emit order check",
         "Generated-schedule search with three history invariants checked on the complete event log of each run; deadlock verdicts are sound because the harness owns the loop (pending with nothing left to run). Threaded mode is sampled, not controlled. Exploration only.",
         "Trusted: virtual loop; 'accepted' = emit awaitable completed; pending emits are excused only where a zip input is observed over-full (starved sibling).",
         "DESIGN.md section 4 C03"),
 "C04": ("Hypothesis-generated pipelines + schedules + fault plans with an instrumented RefCounter in every emission's metadata; history invariant over the event log at every callback-scheduling instant (provenance-based)",
         "Generated-schedule search; the invariant is evaluated on the full event log of each run at every instant the repository's RefCounter schedules its callback: nothing derived from the element is pending, nothing derived from it starts later, nothing derived from it raised. Exploration only.",
         "Trusted: provenance tagging of elements (harness/elements.py), virtual loop; accumulate state is treated as a digest (provenance cut); the flatten design limitation is a recorded known finding.",
         "DESIGN.md section 4 C04"),
 "C05": ("Hypothesis-generated pipelines + schedules with instrumented RefCounters; at every quiescent point count == legitimate holders computed by the reference semantics from observed arrivals; history invariants on the retain/release log",
         "Generated-input/schedule search; accounting invariant compared against an independent holder model at every truly quiescent sample point and after the finish phase; exploration only.",
         "Trusted: harness/model.py holders(), FIFO accounting for asynchronous nodes, the definition of 'truly quiescent' in props/c05.py; latest's hold-after-delivery is a recorded known finding.",
         "DESIGN.md section 4 C05"),
 "C10": ("Hypothesis-generated pipelines + schedules + metadata plans; per-node local oracle on the identity and order of metadata dicts (reference model for sync nodes, FIFO/membership rules for async nodes) and flat-list-of-dicts shape",
         "Generated-input search; the metadata argument observed by a recording child of every node is compared, by object identity, with the documented function of the observed inputs' metadata. Exploration only.",
         "Trusted: harness/model.py metadata rules (DESIGN Appendix A), arrival observation by instance-level update() wrappers.",
         "DESIGN.md section 4 C10"),
 "C16": ("Hypothesis-generated directly-connected pipelines + fault plans (which user-function invocations raise), sync / virtual-loop async / threaded modes; local per-node oracle with the failing invocations removed + exception identity + counter never triggered",
         "Generated fault-sequence search: for each generated pipeline, input sequence and fault plan, the raised instance must reach the emit caller, every node's observed output must equal the documented function of its observed input with failing invocations removed (state kept), and failed elements' counters must never schedule the callback. Exploration only.",
         "Trusted: local reference models; collect/slice (upstream state after a downstream failure is unspecified), remaining siblings/pieces after a failure (unspecified) are avoided by construction.",
         "DESIGN.md section 4 C16"),
 "C14": ("Hypothesis-generated interleavings of arrivals and consumer completions around latest() on the virtual loop; subsequence/monotonicity oracle + newest-delivered-at-quiescence",
         "Generated-schedule search over all interleavings expressible at event-loop granularity; the end-state liveness clause is decided in the bounded form 'input stopped, consumer free, loop idle => newest delivered', sound on a harness-owned single-threaded loop. Exploration only.",
         "Trusted: virtual loop; provenance ids identify elements.",
         "DESIGN.md section 4 C14"),
 "C13": ("Hypothesis-generated arrival-time patterns (idle gaps, bursts, 1-3 concurrent producers, slow/instant consumers) on a virtual clock; exact-arithmetic oracle on delivery timestamps, order and count",
         "Generated-schedule search on a virtual clock with exact grid arithmetic (no tolerance, no flakiness): spacing >= interval, FIFO order, nothing lost, no needless delay on an idle line; delay: order and count. Exploration only.",
         "Trusted: virtual loop/clock; delivery instant = the instant the consumer function is called.",
         "DESIGN.md section 4 C13"),
 "C08": ("Hypothesis-generated arrival patterns around tick/timeout instants with generated consumer busy periods on a virtual clock; conservation/order/size/deadline/spurious-partial oracles over the (virtual time, batch) log",
         "Generated-schedule search on a virtual clock: coincidences (arrival exactly at a tick, during a blocked emission, size flush racing the timer) are generated, not hoped for. Exploration only.",
         "Trusted: virtual loop/clock; busy time measured from the consumer's start/finish log.",
         "DESIGN.md section 4 C08"),
 "C15": ("Hypothesis rule-based state machine over graph-editing histories (add/connect/disconnect/destroy/drop+gc/emit) against a reference model of topology, liveness and delivery; trace minimisation to a replay file",
         "Stateful model-based generation: invariants (link consistency, model-equal arrivals at every node, liveness under GC) are checked after every step of every generated history. Exploration only.",
         "Trusted: the topology/liveness model in props/c15.py; CPython refcounting + gc.collect() as the GC model; zip backlog rule (0..K tuples at an edit, 1..K at an update).",
         "DESIGN.md section 4 C15"),
 "C18": ("Hypothesis-generated start/stop/advance/finish histories against instrumented subclasses of the sources on the virtual loop; invariants over the event log (active loops <= 1, no cycle while stopped, exactly-once in-order delivery, pull-after-finish)",
         "Generated-history search: start and stop are placed at every suspension point of the polling loop (sleep, back-pressured emit, before the loop first runs) because the harness owns the loop. Exploration only.",
         "Trusted: virtual loop; the run()/_run() override points as observation points; iterables are iterators.",
         "DESIGN.md section 4 C18"),
 "C17": ("Hypothesis-generated byte-level chunkings of generated text x poll placements x delimiters x from_end on real temporary files (virtual clock), reference oracle text.split(d); generated file-creation orders for filenames; thorough tier adds a coverage-guided atheris campaign on the same structured case and oracle",
         "Generated-input search over write chunkings and poll placements against the reference record list; plus coverage-guided fuzzing (atheris/libFuzzer, streamz.sources instrumented) in the thorough tier. Exploration only.",
         "Trusted: the OS file semantics (append + read), the harness flushing each chunk before the poll; alphabet without carriage returns.",
         "DESIGN.md section 4 C17"),
 "C19": ("Exhaustive enumeration of the finite configuration product (root kind x mode x loop x child kind x mode x loop) plus Hypothesis-generated longer chains, fan-out and joins, against a small binding model; thread-set and callback-thread observation",
         "The single-child configuration space is enumerated completely (exhaustive: true for that part); longer chains and joins are generated. Oracle: conflicts raise ValueError and nothing else does, bindings are inherited, asynchronous pipelines stay on the caller's loop and thread. Exploration (with an exhaustively enumerated finite part).",
         "Trusted: the binding model in props/c19.py (written from the Stream docstring and C19); None and False are the same effective mode.",
         "DESIGN.md section 4 C19"),
 "C06": ("Hypothesis-generated tables x batch splits (incl. empty batches) x expression trees; differential oracle: streamz result after batch k == the same pandas expression on the concatenated prefix",
         "Generated-input differential testing against pandas as the reference implementation, for every split position and every prefix. Exploration only.",
         "Trusted: pandas 3.0 as the reference; comparison rules in props/dfcommon.py (label set + values within 1e-9, NaN==NaN; dtype/order ignored).",
         "DESIGN.md section 4 C06"),
 "C07": ("Hypothesis-generated tables (row-count and time-indexed) x splits x window sizes/durations x aggregations and windowed groupby; differential oracle against pandas on the window slice of the concatenated prefix",
         "Generated-input differential testing against pandas on exactly the rows inside the window, after every batch. Exploration only.",
         "Trusted: pandas as the reference; window slice definitions cat.iloc[-N:] and index > max - T.",
         "DESIGN.md section 4 C07"),
 "C11": ("Hypothesis-generated tables x two independent batch splits x rolling/cumulative/expanding/ewm operations; reference oracle (pandas in one pass over the concatenation / on the prefix) + metamorphic relation (two splits, same result)",
         "Generated-input search over every kind of split (empty batches, batches shorter than the window) with a reference and a metamorphic oracle. Exploration only.",
         "Trusted: pandas defaults exactly as streamz calls them; ewm with NaN is a recorded known finding.",
         "DESIGN.md section 4 C11"),
 "C12": ("Hypothesis-generated batch sequences x every cut point x state-exposing aggregation families; round-trip oracle: fresh pipeline seeded with the deep-copied state at cut k reproduces the uninterrupted run's suffix",
         "Generated crash-point search: every cut of every generated sequence is resumed from its captured state and compared with the uninterrupted run (streamz vs streamz). Exploration only.",
         "Trusted: deep copy of the emitted state is the checkpoint; resumed pipelines use the empty example frame.",
         "DESIGN.md section 4 C12"),
 "C09": ("Hypothesis-generated production / poll / completion / crash-restart histories against an in-memory fake of the confluent_kafka client on the virtual loop; invariants over emitted ranges, delivered contents, commit order and end-to-end at-least-once",
         "Generated-history search with crash points: the consuming process (loop and all objects) is discarded at any generated point and restarted against the surviving broker state. Exploration only; this code has no executed coverage in the repository suite (its Kafka tests are skipped).",
         "Trusted: harness/fakes/confluent_kafka.py as the broker/client behaviour (watermarks, committed offsets, poll); the reset=latest redelivery baseline in props/c09.py.",
         "DESIGN.md section 4 C09"),
 "C20": ("Hypothesis-generated scatter()...gather() segments and inputs, run on an in-process Dask cluster with value-dependent task sleeps and, as the reference, locally; differential oracle on sink sequences and RefCounter counts",
         "Generated-input differential testing of the Dask-backed pipeline against the local one; the cluster schedule is perturbed, not owned. A missing result is reported only when the cluster is observed idle, otherwise the run is inconclusive (exit 2). Exploration only.",
         "Trusted: the local pipeline as the reference (itself checked by C01-C05); distributed's in-process cluster.",
         "DESIGN.md section 4 C20"),
}
NOT_YET = "check not built yet in this session (the property is decidable with this technique; see DESIGN.md section 4)"

m = {
 "version": 1,
 "setup_cmd": "/venv/bin/python /verif/tools/setup.py",
 "hooks": {"guard": "STREAMZ_VERIF", "enable": "none needed: no source hooks; checks import /repo's working tree directly",
           "baseline_off_cmd": "cd /repo && /venv/bin/python -m pytest -ra -q -p no:cacheprovider --timeout=900 --continue-on-collection-errors",
           "source_commits": [], "add_only": True},
 "engines": [{"name": "check.py", "path": "/verif/check.py", "serves_properties": sorted(CHECKS),
              "kind_free_text": "Hypothesis property-based testing (generated pipelines/inputs/schedules/histories vs explicit oracles) under a harness-owned virtual event loop; atheris for C17"}],
 "checks": [], "not_applicable": [],
 "notes": "All checks: /verif/check.py <ID> --tier quick|thorough; replay: /verif/check.py <ID> --replay <file>. VERIF_SEED selects the Hypothesis seed. Known findings: /verif/known_findings.json.",
}
for p in props:
    i = p["id"]
    if i in CHECKS:
        tech, text, note, ref = CHECKS[i]
        m["checks"].append({
            "property_id": i,
            "quick_cmd": "/venv/bin/python /verif/check.py %s --tier quick" % i,
            "thorough_cmd": "/venv/bin/python /verif/check.py %s --tier thorough" % i,
            "evidence_file": "/verif/evidence/%s.json" % i,
            "replay_cmd_template": "/venv/bin/python /verif/check.py %s --replay {path}" % i,
            "engine": "check.py",
            "level_claimed": {"category": "exploration", "text": text, "design_ref": ref},
            "level_note": note, "technique": tech})
    else:
        m["not_applicable"].append({"property_id": i, "reason": NOT_YET})
json.dump(m, open(os.path.join(HERE, "MANIFEST.json"), "w"), indent=1)
print("wrote MANIFEST.json:", len(m["checks"]), "checks,", len(m["not_applicable"]), "not applicable")
