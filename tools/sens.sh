#!/bin/bash
# usage: sens.sh <ID> <python-edit-snippet|patchfile> [tier]   -- runs check <ID> against a mutated scratch copy of /repo
# The snippet is python code operating on dict SRC{relpath: text} e.g. 'r("streamz/core.py","a","b")'
set -u
ID=$1; EDIT=$2; TIER=${3:-quick}
D=$(mktemp -d /tmp/mut.XXXXXX)
mkdir -p $D/repo && cp -r /repo/streamz $D/repo/streamz && find $D/repo -name __pycache__ -prune -exec rm -rf {} +
if [ -f "$EDIT" ]; then (cd $D/repo && patch -p1 -s < "$EDIT") || { echo PATCH-FAILED; rm -rf $D; exit 3; }
else
/venv/bin/python - "$D/repo" "$EDIT" <<'PY' || { echo EDIT-FAILED; rm -rf $D; exit 3; }
import sys,os
root,edit=sys.argv[1],sys.argv[2]
def r(path,a,b,count=1):
    p=os.path.join(root,path); s=open(p).read()
    assert a in s, "pattern not found: "+a
    s=s.replace(a,b,count); open(p,'w').write(s)
exec(edit)
PY
fi
for id in ${ID//,/ }; do
VERIF_OUT=$D/out VERIF_REPO=$D/repo /venv/bin/python /verif/check.py $id --tier $TIER 2>&1 | grep -E "VIOLATION|signature|HARNESS|cases," | head -8
done
rm -rf $D
