#!/venv/bin/python
"""Writes /verif/seeded/<name>/meta.json from the verification results (result.json, notes.md)."""
import json, os, glob, re
HERE = os.path.dirname(os.path.dirname(os.path.abspath(__file__)))
SUITE_OK = set(open(os.path.join(HERE, "seeded", "suite_confirmed.txt")).read().split())
for d in sorted(glob.glob(os.path.join(HERE, "seeded", "*-agent*"))):
    name = os.path.basename(d)
    try:
        r = json.load(open(os.path.join(d, "result.json")))
    except Exception:
        continue
    notes = open(os.path.join(d, "notes.md")).read() if os.path.exists(os.path.join(d, "notes.md")) else ""
    caught = re.findall(r"(C\d\d):rc=(\d)\[([^\]]*)\]", r["checks"])
    meta = {
        "property": r["property"],
        "origin": "independent sub-agent given only the property text and a scratch worktree",
        "what_it_needs_to_manifest": " ".join(notes.split())[:900],
        "confirmed_by_me": {
            "demo_exit_on_clean_tree": r["demo_exit_clean"],
            "demo_exit_with_change": r["demo_exit_changed"],
            "repository_suite_with_change": "passed (exit 0)" if name in SUITE_OK else "see suite.log",
            "ran": "tools/seed_verify.sh (scratch worktree of /repo at %s, removed afterwards)" % r["repo_head"],
        },
        "detected_by": [{"check": c, "exit": int(rc), "signatures": sig.split()} for c, rc, sig in caught],
        "caught": any(int(rc) == 1 for _, rc, _ in caught),
    }
    extra = os.path.join(d, "extra.json")   # hand-written additions (e.g. detection by the thorough tier only)
    if os.path.exists(extra):
        meta.update(json.load(open(extra)))
    json.dump(meta, open(os.path.join(d, "meta.json"), "w"), indent=1)
    for junk in ("suite.log", "apply.log"):
        p = os.path.join(d, junk)
        if os.path.exists(p) and os.path.getsize(p) > 200000:
            os.remove(p)
    print(name, meta["caught"], [x["check"] for x in meta["detected_by"] if x["exit"] == 1])
